"""C01 - expressions evaluate to their mathematical value on both paths.

Decides that the formula the engine receives *is* the formula the user wrote
(operator, operand order, indices, sharing) and that the pure-Python
evaluator implements the operator table.  The arithmetic of the compiled
engine is outside /repo and is not decided.
"""

from __future__ import annotations

import ast
import os
import re

from ..core import AnalysisError, ClassInfo, FuncInfo, Program, call_name, const_value, dotted, inline_locals, unparse, walk_no_nested
from ..packs import ecc, ord_pack
from ..pattern import body_is, bound, expr_is, find, has, has_expr
from ..report import Ctx
from ..sigtemplate import CHILDREN, OPEN, AttrRoles, RecordTemplate, render_items
from ..tables import OPERATOR_TABLE

BASE = 'expressions.base_expressions'
BIOFORMULA = '/venv/lib/python3.12/site-packages/cythonbiogeme/cpp/bioFormula.cc'

GENERIC = '<{CLS}>{{ID:self}}({LEN:CHILDREN})⟦for $0 in CHILDREN: ,{ID:$0}⟧'
BIN = 'GENERIC[@0 ; @1]'
UN = 'GENERIC[@0]'


def LEAF(t):
    return '<{CLS}>{{ID:self}}"{VAL:@0}",{IDX:elementary_expressions:self},{IDX:' + t + ':self}'


#: reader grammar of bioFormula.cc::processFormula translated to writer terms (@k = k-th constructor parameter)
EXPECTED = {
    **{t: BIN for t in ('Plus', 'Minus', 'Times', 'Divide', 'Power', 'And', 'Or', 'Equal', 'NotEqual', 'Less', 'LessOrEqual', 'Greater', 'GreaterOrEqual', 'bioMin', 'bioMax')},
    **{t: UN for t in ('UnaryMinus', 'MonteCarlo', 'bioNormalCdf', 'PanelLikelihoodTrajectory', 'exp', 'sin', 'cos', 'log', 'logzero')},
    'bioMultSum': 'GENERIC[⟦for $0 in @0: $0⟧]',
    'Numeric': '<{CLS}>{{ID:self}},{VAL:@0}',
    'Beta': '<{CLS}>{{ID:self}}"{VAL:@0}"[{VAL:@4}],{IDX:elementary_expressions:self},{IDX:fixed_betas|free_betas:self}',
    'Variable': LEAF('variables'),
    'bioDraws': LEAF('draws'),
    'RandomVariable': LEAF('random_variables'),
    'PowerConstant': '<{CLS}>{{ID:self}},{ID:@0},{VAL:@1}',
    'Derive': '<{CLS}>{{ID:self}},{ID:@0},{VAL:self.id_manager.elementary_expressions.indices[@1]}',
    'Integrate': '<{CLS}>{{ID:self}},{ID:@0},{VAL:self.id_manager.random_variables.indices[@1]}',
    'BelongsTo': '<{CLS}>{{ID:self}}({LEN:@1}),{ID:@0}⟦for $0 in @1: ,{VAL:$0}⟧',
    'ConditionalSum': '<{CLS}>{{ID:self}}({LEN:@0})⟦for $0,$1 in @0: ,{ID:$0},{ID:$1}⟧',
    'Elem': '<{CLS}>{{ID:self}}({LEN:@0}),{ID:@1}⟦for $0,$1 in @0.items(): ,{VAL:$0},{ID:$1}⟧',
    'bioLinearUtility': '<{CLS}>{{ID:self}}({LEN:self.listOfTerms})⟦for $0,$1 in self.listOfTerms: ,{ID:$0},{IDX:elementary_expressions:$0},{VAL:$0.name},'
    '{ID:$1},{IDX:elementary_expressions:$1},{VAL:$1.name}⟧',
    '_bioLogLogit': '<{CLS}>{{ID:self}}({LEN:@0}),{ID:@2}⟦for $0,$1 in @0.items(): ,{VAL:$0},{ID:$1},{ID:self.av[$0]}⟧',
    '_bioLogLogitFullChoiceSet': '<{CLS}>{{ID:self}}({LEN:@0}),{ID:@1}⟦for $0,$1 in @0.items(): ,{VAL:$0},{ID:$1},{ID:self.av[$0]}⟧',
}
READER_TAGS = set(EXPECTED) | {'DefineVariable'}

#: classes that never reach the engine under their own tag; reason for each
NOT_SERIALISED = {
    'Expression': 'abstract base',
    'Elementary': 'abstract base of the leaves',
    'UnaryOperator': 'abstract base',
    'BinaryOperator': 'abstract base',
    'ComparisonOperator': 'abstract base',
    'LogLogit': 'base of _bioLogLogit/_bioLogLogitFullChoiceSet; the model functions never build it',
    'MultipleExpression': 'delegates get_signature to the selected member (C16)',
    'Catalog': 'delegates get_signature to the selected member (C16)',
    'DefineVariable': 'constructor raises: obsolete',
}

ARITH = {'Plus': ast.Add, 'Minus': ast.Sub, 'Times': ast.Mult, 'Divide': ast.Div, 'Power': ast.Pow}
COMPARE = {
    'Equal': lambda o: o == 'eq',
    'NotEqual': lambda o: o != 'eq',
    'LessOrEqual': lambda o: o in ('lt', 'eq'),
    'GreaterOrEqual': lambda o: o in ('gt', 'eq'),
    'Less': lambda o: o == 'lt',
    'Greater': lambda o: o == 'gt',
}
NUMPY_FUN = {'exp': 'exp', 'sin': 'sin', 'cos': 'cos', 'log': 'log'}


# --------------------------------------------------------------------------
# leaf-id tables (R5)


def leaf_tables(ctx: Ctx) -> dict[str, str]:
    """attribute -> IdManager table(s) read in set_id_manager; also emits the R5 obligations"""
    prog = ctx.prog
    elem = prog.cls('expressions.elementary_expressions', 'Elementary')
    id_attrs: dict[str, set[str]] = {}
    per_class: dict[str, dict[str, set[str]]] = {}
    for c in prog.subclasses(elem):
        f = c.methods.get('set_id_manager')
        if f is None:
            continue
        tabs: dict[str, set[str]] = {}
        # `self.id_manager = <parameter>`: the parameter (never re-assigned) and the attribute are the same object in this method
        alias = [unparse(n.value) for n in walk_no_nested(f.node) if isinstance(n, ast.Assign) and unparse(n.targets[0]) == 'self.id_manager' and isinstance(n.value, ast.Name)
                 and n.value.id in f.positional_params() and not any(isinstance(m, ast.Name) and m.id == n.value.id and isinstance(m.ctx, ast.Store) for m in ast.walk(f.node))]
        for n in walk_no_nested(f.node):
            if isinstance(n, ast.Assign) and isinstance(n.targets[0], ast.Attribute) and unparse(n.targets[0].value) == 'self':
                vtxt = unparse(inline_locals(f.node, n.value))
                for a_ in alias:
                    vtxt = re.sub(rf'(?<![\w.]){re.escape(a_)}\.', 'self.id_manager.', vtxt)
                m = re.fullmatch(r'self\.id_manager\.(\w+)\.indices\[self\.name\]', vtxt)
                if m:
                    tabs.setdefault(n.targets[0].attr, set()).add(m.group(1))
                elif unparse(n.value) not in ('None', 'id_manager'):
                    ctx.add('C01.R5', f'{c.name}.set_id_manager.{n.targets[0].attr}', False, (f.file, n.lineno),
                            f'id attribute filled from {unparse(n.value)} (expected an IdManager index of self.name)', unparse(n))
        per_class[c.name] = tabs
        for a, t in tabs.items():
            id_attrs.setdefault(a, set()).update(t)
    want = {
        'bioDraws': {'elementaryIndex': {'elementary_expressions'}, 'drawId': {'draws'}},
        'Variable': {'elementaryIndex': {'elementary_expressions'}, 'variableId': {'variables'}},
        'RandomVariable': {'elementaryIndex': {'elementary_expressions'}, 'rvId': {'random_variables'}},
        'Beta': {'elementaryIndex': {'elementary_expressions'}, 'betaId': {'fixed_betas', 'free_betas'}},
    }
    ENUM = {'bioDraws': 'DRAWS', 'Variable': 'VARIABLE', 'RandomVariable': 'RANDOM_VARIABLE'}
    for cname, w in want.items():
        c = prog.find_class(cname, 'expressions')
        got = per_class.get(cname)
        ctx.need(got is not None, f'{cname}.set_id_manager')
        # compare modulo the names of the id attributes: one unique index + one kind index
        gv = sorted(map(sorted, got.values()))
        wv = sorted(map(sorted, w.values()))
        ctx.add('C01.R5', f'{cname}.set_id_manager', gv == wv, c.methods['set_id_manager'],
                f'{cname} reads its ids from ' + ', '.join(f'{a}<-{"/".join(sorted(t))}' for a, t in sorted(got.items())) + ('' if gv == wv else f'; expected tables {wv}'),
                detail=str(sorted((a, sorted(t)) for a, t in got.items())))
    # Beta: free/fixed predicate
    beta = prog.find_class('Beta', 'expressions')
    f = beta.methods['set_id_manager']
    ifs = [n for n in walk_no_nested(f.node) if isinstance(n, ast.If) and 'status' in unparse(n.test)]
    ok = False
    det = ''
    if len(ifs) == 1:
        n = ifs[0]
        det = unparse(n.test)
        tb = ' '.join(unparse(s) for s in n.body)
        eb = ' '.join(unparse(s) for s in n.orelse)
        if det.replace(' ', '') in ('self.status!=0',):
            ok = 'fixed_betas' in tb and 'free_betas' in eb and 'free_betas' not in tb and 'fixed_betas' not in eb
        elif det.replace(' ', '') in ('self.status==0',):
            ok = 'free_betas' in tb and 'fixed_betas' in eb and 'fixed_betas' not in tb and 'free_betas' not in eb
    ctx.add('C01.R5', 'Beta.set_id_manager:status', ok, f, f'status == 0 selects the free table, anything else the fixed one ({det})' if ok else f'free/fixed selection by `{det}` does not agree with the reader (status == 0 is free)', det)
    # dict_of_elementary_expression: class <-> enum
    for cname, enum in ENUM.items():
        c = prog.find_class(cname, 'expressions')
        g = c.methods.get('dict_of_elementary_expression')
        ctx.need(g is not None, f'{cname}.dict_of_elementary_expression')
        tests = [n for n in walk_no_nested(g.node) if isinstance(n, ast.If)]
        good = (
            len(tests) == 1
            and unparse(tests[0].test).replace(' ', '') == f'the_type==TypeOfElementaryExpression.{enum}'
            and len(tests[0].body) == 1
            and unparse(tests[0].body[0]).replace(' ', '') == 'return{self.name:self}'
            and unparse(g.body[-1]).replace(' ', '') == 'return{}'
        )
        ctx.add('C01.R5', f'{cname}.dict_of_elementary_expression', good, g, f'{cname} answers exactly the kind {enum} with {{name: self}}' if good else f'{cname} does not answer exactly the kind {enum}', unparse(tests[0].test) if tests else '')
    from ..pattern import body_is, find, has, has_expr

    T = 'TypeOfElementaryExpression'
    c = prog.find_class('Beta', 'expressions')
    g = c.methods['dict_of_elementary_expression']
    tests = [n for n in walk_no_nested(g.node) if isinstance(n, ast.If)]
    good = None
    if len(tests) == 1 and not tests[0].orelse and body_is(tests[0].body, 'return {self.name: self}') is not None and unparse(g.body[-1]) == 'return {}':
        t = tests[0].test
        disj = {unparse(v).replace('(', '').replace(')', '') for v in (t.values if isinstance(t, ast.BoolOp) and isinstance(t.op, ast.Or) else [t])}
        want = {f'the_type == {T}.BETA', f'the_type == {T}.FREE_BETA and self.status == 0', f'the_type == {T}.FIXED_BETA and self.status != 0'}
        good = disj == want
    ctx.add('C01.R5', 'Beta.dict_of_elementary_expression', good, g, 'Beta: FREE_BETA iff status == 0, FIXED_BETA iff status != 0' if good else ('Beta answers {name: self} for other kinds / status than BETA, FREE_BETA with status 0, FIXED_BETA with status != 0' if good is False else 'shape not recognised - expected: `return {self.name: self}` under a disjunction of kind tests, `return {}` otherwise'), 'beta-kinds')
    c = prog.find_class('bioLinearUtility', 'expressions')
    g = c.methods['dict_of_elementary_expression']
    good = (
        has(g.node, f'if the_type == {T}.BETA:\n    return {{_X.name: _X for _X in self.betas}}')
        and has(g.node, f'if the_type == {T}.FREE_BETA:\n    return {{_X.name: _X for _X in self.betas if _X.status == 0}}')
        and has(g.node, f'if the_type == {T}.FIXED_BETA:\n    return {{_X.name: _X for _X in self.betas if _X.status != 0}}')
        and has(g.node, f'if the_type == {T}.VARIABLE:\n    return {{_X.name: _X for _X in self.variables}}')
        and unparse(g.body[-1]) == 'return {}'
    )
    ctx.add('C01.R5', 'bioLinearUtility.dict_of_elementary_expression', good, g, 'bioLinearUtility: FREE_BETA iff status == 0, FIXED_BETA iff status != 0, variables under VARIABLE' if good else 'bioLinearUtility: free/fixed/variable classification not in the expected form', 'blu-kinds')
    # IdManager.prepare: enum -> table
    prep = prog.func('expressions.idmanager', 'IdManager.prepare')
    wantp = {'self.free_betas': 'FREE_BETA', 'self.fixed_betas': 'FIXED_BETA', 'self.random_variables': 'RANDOM_VARIABLE', 'self.draws': 'DRAWS'}
    bad = []
    for tgt, enum in wantp.items():
        ok1 = has(prep.node, f"""
_E = {{}}
for _F in self.expressions:
    _D = _F.dict_of_elementary_expression(the_type={T}.{enum})
    _E = dict(_E, **_D)
{tgt} = expressions_names_indices(_E)
""")
        if not ok1:
            bad.append(f'{tgt.split(".")[1]}<-{enum}')
    ctx.add('C01.R5', 'IdManager.prepare:tables', not bad, prep, 'IdManager fills free_betas / fixed_betas / random_variables / draws from the elements of the matching kind of every formula' if not bad else f'IdManager does not fill {bad} from the matching kind', str(bad))
    eni = prog.func('expressions.idmanager', 'expressions_names_indices')
    pn = eni.positional_params()[0]
    ok = body_is(eni.body, f"""
_I = {{}}
_N = sorted({pn})
for _K, _V in enumerate(_N):
    _I[_V] = _K
return ElementsTuple(expressions={pn}, indices=_I, names=_N)
""") is not None or body_is(eni.body, f"""
_N = sorted({pn})
_I = {{_V: _K for _K, _V in enumerate(_N)}}
return ElementsTuple(expressions={pn}, indices=_I, names=_N)
""") is not None
    ctx.add('C01.R5', 'expressions_names_indices', ok, eni, 'indices[name] = position of name in the sorted list of names' if ok else 'indices are not the enumeration of the sorted names', 'sorted')
    # variables: enumerate(columns)
    bv = find(prep.node, """
_NAMES = self.database.data.columns.to_list()
_IDX = {_V: _K for _K, _V in enumerate(_NAMES)}
self.variables = ElementsTuple(expressions=None, indices=_IDX, names=_NAMES)
""")
    ok = True if bv is not None else None
    ctx.add('C01.R5', 'IdManager.prepare:variables', ok, prep, 'variableId = position of the column in database.data' if ok else 'shape not recognised - expected: indices = {name: position} over database.data.columns.to_list(), stored with those names', 'variables')
    out = _IdAttrs({a: '|'.join(sorted(t)) for a, t in id_attrs.items()})
    out.per_class = {cn: {a: '|'.join(sorted(t)) for a, t in tabs.items()} for cn, tabs in per_class.items()}
    return out


class _IdAttrs(dict):
    """attribute -> table(s), over all leaf classes; per_class: the same for the attributes each class fills itself (two classes may
    give the same name to ids of different tables)"""
    per_class: dict[str, dict[str, str]] = {}


# --------------------------------------------------------------------------
# R6: finite-domain interpretation of get_value bodies


class Unknown(Exception):
    pass


def _interp(body: list[ast.stmt], atoms: dict[str, str], oracle) -> tuple:
    """returns ('ret', value) | ('raise', text); value: ('atom', name) | ('const', v) | ('expr', text).
    ('expr', text) is a value the interpreter could not fold: text is its canonical spelling (atoms and locals substituted,
    pow(a, b) written a ** b).  A caller may compare it with a spelling it knows; any other text leaves the verdict open."""
    import copy

    env: dict[str, tuple] = {}
    env_ast: dict[str, ast.expr] = {}

    class Canon(ast.NodeTransformer):
        def visit(self, node):
            if isinstance(node, ast.expr):
                t = unparse(node)
                if t in atoms:
                    return ast.Name(id=atoms[t], ctx=ast.Load())
                if isinstance(node, ast.Name) and node.id in env:
                    v = env[node.id]
                    if v[0] == 'atom':
                        return ast.Name(id=v[1], ctx=ast.Load())
                    if v[0] == 'const' and v[1] is not None and v[1] == v[1] and abs(v[1]) != float('inf'):
                        return ast.Constant(value=v[1])
                    if node.id in env_ast:
                        return copy.deepcopy(env_ast[node.id])
            node = self.generic_visit(node)
            if isinstance(node, ast.Call) and isinstance(node.func, ast.Name) and node.func.id == 'pow' and len(node.args) == 2 and not node.keywords:
                return ast.BinOp(left=node.args[0], op=ast.Pow(), right=node.args[1])
            return node

    def canon(e: ast.expr) -> ast.expr:
        return ast.fix_missing_locations(Canon().visit(copy.deepcopy(e)))

    def is_test(e: ast.expr) -> bool:
        return isinstance(e, ast.Compare) or (isinstance(e, ast.UnaryOp) and isinstance(e.op, ast.Not))

    def val(e: ast.expr):
        t = unparse(e)
        if t in atoms:
            return ('atom', atoms[t])
        if isinstance(e, ast.Name) and e.id in env:
            return env[e.id]
        if isinstance(e, ast.Constant) and isinstance(e.value, (int, float)):  # True / False are 1 / 0
            return ('const', float(e.value))
        if isinstance(e, ast.UnaryOp) and isinstance(e.op, ast.USub) and isinstance(e.operand, ast.Constant) and isinstance(e.operand.value, (int, float)):
            return ('const', -float(e.operand.value))
        if isinstance(e, ast.IfExp):
            return val(e.body) if test(e.test) else val(e.orelse)
        if t in ('-np.inf', '-numpy.inf', '-math.inf', "float('-inf')"):
            return ('const', float('-inf'))
        if is_test(e):
            # the value of a comparison / negation is True or False, numerically 1 or 0
            return ('const', 1.0 if test(e) else 0.0)
        if isinstance(e, ast.BoolOp):
            # `a and b` / `a or b` is one of its operands
            for v in e.values[:-1]:
                if test(v) != isinstance(e.op, ast.And):
                    return val(v)
            return val(e.values[-1])
        if isinstance(e, ast.Call) and isinstance(e.func, ast.Name) and e.func.id in ('int', 'float', 'bool') and len(e.args) == 1 and not e.keywords:
            a = e.args[0]
            if is_test(a) or e.func.id == 'bool':
                return ('const', 1.0 if test(a) else 0.0)
            v = val(a)
            if v[0] == 'const' and v[1] is not None and (e.func.id == 'float' or (abs(v[1]) != float('inf') and v[1] == int(v[1]))):
                return v
            if v[0] == 'atom' and e.func.id == 'float':
                return v  # float() of a value that is already a float
        if isinstance(e, ast.Call) and isinstance(e.func, ast.Name) and e.func.id in ('min', 'max') and len(e.args) == 2 and not e.keywords:
            a, b = val(e.args[0]), val(e.args[1])
            if a[0] == 'atom' and b[0] == 'atom':
                # min(a, b) is a unless b < a; max(a, b) is a unless b > a
                return b if oracle(b, 'Lt' if e.func.id == 'min' else 'Gt', a, t) else a
        # any other expression: its canonical text
        return ('expr', unparse(canon(e)))

    def test(e: ast.expr) -> bool:
        if isinstance(e, ast.Compare):
            # a chained comparison `a op b op c` is `a op b and b op c` (the operands are values, read once)
            terms = [e.left] + list(e.comparators)
            return all(oracle(val(l_), type(op_).__name__, val(r_), unparse(e)) for l_, op_, r_ in zip(terms, e.ops, terms[1:]))
        if isinstance(e, ast.BoolOp):
            vs = [test(v) for v in e.values]
            return all(vs) if isinstance(e.op, ast.And) else any(vs)
        if isinstance(e, ast.UnaryOp) and isinstance(e.op, ast.Not):
            return not test(e.operand)
        # truth of a number: it is not zero
        v = val(e)
        if v[0] == 'const' and v[1] is not None:
            return v[1] != 0.0
        if v[0] == 'atom':
            return oracle(v, 'NotEq', ('const', 0.0), unparse(e))
        return oracle(None, 'truth', None, unparse(e))

    def run(stmts):
        for st in stmts:
            if isinstance(st, ast.Expr) and isinstance(st.value, ast.Constant):
                continue
            if isinstance(st, ast.Assign) and len(st.targets) == 1 and isinstance(st.targets[0], ast.Name):
                v_ = val(st.value)
                a_ = canon(st.value)
                env[st.targets[0].id] = v_
                env_ast[st.targets[0].id] = a_
                continue
            if isinstance(st, ast.If):
                r = run(st.body) if test(st.test) else run(st.orelse)
                if r is not None:
                    return r
                continue
            if isinstance(st, ast.Return):
                return ('ret', val(st.value))
            if isinstance(st, ast.Raise):
                return ('raise', unparse(st.exc) if st.exc else '')
            raise Unknown(unparse(st)[:60])
        return None

    try:
        r = run(body)
    except RecursionError:
        raise Unknown('expression too deep for the interpreter') from None
    if r is None:
        return ('ret', ('const', None))
    return r


def _order_oracle(order: str):
    def o(a, op, b, text):
        if a is None:
            raise Unknown(text)
        if a[0] == 'atom' and b[0] == 'atom' and {a[1], b[1]} == {'L', 'R'}:
            rel = order if a[1] == 'L' else {'lt': 'gt', 'gt': 'lt', 'eq': 'eq'}[order]
            return {'Lt': rel == 'lt', 'LtE': rel in ('lt', 'eq'), 'Gt': rel == 'gt', 'GtE': rel in ('gt', 'eq'), 'Eq': rel == 'eq', 'NotEq': rel != 'eq'}[op]
        raise Unknown(text)

    return o


def _zero_oracle(zero: dict[str, bool]):
    def o(a, op, b, text):
        if a is None:
            raise Unknown(text)
        if a[0] == 'const' and b[0] == 'atom':
            a, b = b, a
        if a[0] == 'atom' and b[0] == 'const' and b[1] == 0.0 and op in ('Eq', 'NotEq'):
            z = zero[a[1]]
            return z if op == 'Eq' else not z
        raise Unknown(text)

    return o


def evaluator_rules(ctx: Ctx) -> None:
    prog = ctx.prog
    R = 'C01.R6'
    LR = {'self.left.get_value()': 'L', 'self.right.get_value()': 'R'}

    def gv(cname: str) -> FuncInfo:
        c = prog.find_class(cname, 'expressions')
        f = c.methods.get('get_value')
        ctx.need(f is not None, f'{cname}.get_value')
        return f

    def returned(f: FuncInfo) -> ast.expr | None:
        """the value of a body that is assignments of locals followed by one return, the locals resolved"""
        b = f.body
        if not b or not isinstance(b[-1], ast.Return) or b[-1].value is None:
            return None
        if not all(isinstance(st, ast.Assign) and len(st.targets) == 1 and isinstance(st.targets[0], ast.Name) for st in b[:-1]):
            return None
        return inline_locals(f.node, b[-1].value)

    for cname, op in ARITH.items():
        f = gv(cname)
        v = returned(f)
        sides = (unparse(v.left), unparse(v.right)) if isinstance(v, ast.BinOp) else None
        # one operation on the values of the two operands: the operator and the order of the operands are then decided
        plain = sides is not None and set(sides) == {'self.left.get_value()', 'self.right.get_value()'}
        ok = plain and isinstance(v.op, op) and (sides == ('self.left.get_value()', 'self.right.get_value()') or op in (ast.Add, ast.Mult))  # a + b is b + a
        ctx.add(R, f'{cname}.get_value', ok if (ok or plain) else None, f, f'{cname} evaluates left {op.__name__} right' if ok else
                (f'{cname}.get_value returns {unparse(v)[:80]}, which is not left {op.__name__} right' if plain else f'{cname}.get_value is not in the expected form (one operation on the values of the two operands)'),
                unparse(f.body[-1]), positive=plain and not ok)
    def settle(construct: str, f: FuncInfo, name: str, bad: list[str], open_: list[str], okmsg: str) -> None:
        """bad: cases in which the interpreter obtained a definite value that is not the one of the table (a contradiction);
        open_: cases whose value the interpreter could not fold (nothing is known about them)"""
        if bad:
            ctx.add(R, construct, False, f, f'{name}: ' + '; '.join(bad), ';'.join(bad))
        elif open_:
            ctx.add(R, construct, None, f, f'{name}.get_value is not in a form the interpreter folds to a value: ' + '; '.join(open_)[:300], ';'.join(open_))
        else:
            ctx.add(R, construct, True, f, okmsg, '')

    def judge_const(r: tuple, want: float) -> str:
        if r[0] == 'raise':
            return 'bad'
        if r[1][0] == 'expr':
            return 'open'
        return 'ok' if r[1] == ('const', want) else 'bad'

    def show(r: tuple) -> str:
        return f'raise {r[1]}' if r[0] == 'raise' else str(r[1][1])

    for cname, truth in COMPARE.items():
        f = gv(cname)
        bad, open_ = [], []
        for order in ('lt', 'eq', 'gt'):
            try:
                r = _interp(f.body, LR, _order_oracle(order))
            except Unknown as e:
                open_.append(f'left {order} right: {e}')
                continue
            j = judge_const(r, 1.0 if truth(order) else 0.0)
            if j != 'ok':
                (bad if j == 'bad' else open_).append(f'left {order} right -> {show(r)}')
        settle(f'{cname}.get_value', f, cname, bad, open_, f'truth table of {cname} over {{<,=,>}} is correct')
    for cname, pick in (('bioMin', {'lt': {'L'}, 'eq': {'L', 'R'}, 'gt': {'R'}}), ('bioMax', {'lt': {'R'}, 'eq': {'L', 'R'}, 'gt': {'L'}})):
        f = gv(cname)
        bad, open_ = [], []
        for order in ('lt', 'eq', 'gt'):
            try:
                r = _interp(f.body, LR, _order_oracle(order))
            except Unknown as e:
                open_.append(f'left {order} right: {e}')
                continue
            if r[0] == 'ret' and r[1][0] == 'atom' and r[1][1] in pick[order]:
                continue
            (open_ if r[0] == 'ret' and r[1][0] == 'expr' else bad).append(f'left {order} right -> {show(r)}')
        settle(f'{cname}.get_value', f, cname, bad, open_, f'{cname} returns the right operand in all three orderings')
    for cname, fn in (('And', lambda l, r: l and r), ('Or', lambda l, r: l or r)):
        f = gv(cname)
        bad, open_ = [], []
        for lz in (True, False):
            for rz in (True, False):
                label = f'left {"=0" if lz else "!=0"}, right {"=0" if rz else "!=0"}'
                try:
                    r = _interp(f.body, LR, _zero_oracle({'L': lz, 'R': rz}))
                except Unknown as e:
                    open_.append(f'{label}: {e}')
                    continue
                j = judge_const(r, 1.0 if fn(not lz, not rz) else 0.0)
                if j != 'ok':
                    (bad if j == 'bad' else open_).append(f'{label} -> {show(r)}')
        settle(f'{cname}.get_value', f, cname, bad, open_, f'truth table of {cname} over {{0, non-zero}}^2 is correct')
    # unary
    f = gv('UnaryMinus')
    b = f.body
    ok = len(b) == 1 and unparse(b[0]) == 'return -self.child.get_value()'
    ctx.add(R, 'UnaryMinus.get_value', ok, f, 'UnaryMinus negates its child' if ok else f'UnaryMinus.get_value: {unparse(b[-1])}', unparse(b[-1]))
    for cname, fn in NUMPY_FUN.items():
        f = gv(cname)
        v = returned(f)
        m_ = re.fullmatch(r'(?:np|numpy|math)\.(\w+)\(self\.child\.get_value\(\)\)', unparse(v)) if v is not None else None
        ok = m_ is not None and m_.group(1) == fn
        other = m_ is not None and m_.group(1) != fn
        ctx.add(R, f'{cname}.get_value', ok if (ok or other) else None, f, f'{cname} applies np.{fn} to its child' if ok else
                (f'{cname}.get_value applies {m_.group(1)} to its child, not {fn}' if other else f'{cname}.get_value is not in the expected form (np.{fn} of the value of the child)'), unparse(f.body[-1]), positive=other)
    f = gv('logzero')
    C = {'self.child.get_value()': 'C'}
    LOGS = ('np.log(C)', 'numpy.log(C)', 'math.log(C)')
    bad, open_ = [], []
    for z in (True, False):
        label = 'child = 0' if z else 'child != 0'
        try:
            r = _interp(f.body, C, _zero_oracle({'C': z}))
        except Unknown as e:
            open_.append(f'{label}: {e}')
            continue
        if r[0] == 'raise':
            bad.append(f'{label} -> {show(r)}')
        elif z:
            # 0 at 0: the constant 0, or the child itself (which is 0 there); the logarithm of the child is not
            if r[1] in (('const', 0.0), ('atom', 'C')):
                continue
            (bad if r[1][0] != 'expr' or r[1][1] in LOGS else open_).append(f'{label} -> {show(r)}')
        else:
            if r[1][0] == 'expr' and r[1][1] in LOGS:
                continue
            other_fn = r[1][0] == 'expr' and re.fullmatch(r'(?:np|numpy|math)\.\w+\(C\)', r[1][1]) is not None
            (bad if r[1][0] != 'expr' or other_fn else open_).append(f'{label} -> {show(r)}')
    settle('logzero.get_value', f, 'logzero', bad, open_, 'logzero is 0 at 0 and log elsewhere')
    # PowerConstant over sign x integer exponent
    f = gv('PowerConstant')

    def pc_oracle(sign, integer):
        def o(a, op, b, text):
            t = text.replace(' ', '')
            if t in ('self.integer_exponentisnotNone', 'Noneisnotself.integer_exponent'):
                return integer
            if t in ('self.integer_exponentisNone', 'Noneisself.integer_exponent'):
                return not integer
            if a is not None and a[0] == 'const' and b[0] == 'atom':
                a, b, op = b, a, {'Lt': 'Gt', 'LtE': 'GtE', 'Gt': 'Lt', 'GtE': 'LtE'}.get(op, op)
            if a is not None and a[0] == 'atom' and b[0] == 'const' and b[1] == 0.0:
                return {'Eq': sign == 0, 'NotEq': sign != 0, 'Lt': sign < 0, 'LtE': sign <= 0, 'Gt': sign > 0, 'GtE': sign >= 0}[op]
            raise Unknown(text)

        return o

    bad, open_ = [], []
    for sign in (-1, 0, 1):
        for integer in (True, False):
            label = f'child sign {sign}, integer exponent {integer}'
            try:
                r = _interp(f.body, C, pc_oracle(sign, integer))
            except Unknown as e:
                open_.append(f'{label}: {e}')
                continue
            powers = ('C ** self.exponent',) + (('C ** self.integer_exponent',) if integer else ())
            if sign == 0:
                j = 'ok' if r == ('ret', ('const', 0.0)) else 'open' if r[0] == 'ret' and r[1][0] == 'expr' else 'bad'
            elif sign > 0 or integer:
                j = 'ok' if r[0] == 'ret' and r[1][0] == 'expr' and r[1][1] in powers else 'open' if r[0] == 'ret' and r[1][0] == 'expr' else 'bad'
            else:
                # a negative number to a non-integer power has no real value: the evaluator refuses
                j = ('ok' if 'BiogemeError' in r[1] else 'open') if r[0] == 'raise' else 'open' if r[1][0] == 'expr' and r[1][1] not in powers else 'bad'
            if j != 'ok':
                (bad if j == 'bad' else open_).append(f'{label} -> {show(r)}')
    settle('PowerConstant.get_value', f, 'PowerConstant', bad, open_, 'PowerConstant: 0 -> 0, v>0 -> v**e, v<0 with integer e -> v**e, otherwise BiogemeError')
    # n-ary
    f = gv('bioMultSum')
    loops = [n for n in f.body if isinstance(n, ast.For)]
    ok = False
    if len(loops) == 1 and unparse(loops[0].iter) in ('self.get_children()', 'self.children') and len(loops[0].body) == 1:
        acc = loops[0].body[0]
        tv = unparse(loops[0].target)
        ok = isinstance(acc, ast.AugAssign) and isinstance(acc.op, ast.Add) and unparse(acc.value) == f'{tv}.get_value()' \
            and unparse(f.body[-1]) == f'return {unparse(acc.target)}' and any(unparse(s) in (f'{unparse(acc.target)} = 0.0', f'{unparse(acc.target)} = 0') for s in f.body)
    ctx.add(R, 'bioMultSum.get_value', ok, f, 'bioMultSum adds the value of every child' if ok else 'bioMultSum.get_value is not the sum over all children', ' ; '.join(unparse(s) for s in f.body)[:200])
    f = gv('ConditionalSum')
    loops = [n for n in f.body if isinstance(n, ast.For)]
    ok = False
    if len(loops) == 1 and unparse(loops[0].iter) == 'self.list_of_terms':
        tv = unparse(loops[0].target)
        txt = ' ; '.join(unparse(s) for s in loops[0].body)
        m = re.fullmatch(rf'(\w+) = {tv}\.condition\.get_value\(\) ; if \1 != 0(?:\.0)?:\n    (\w+) \+= {tv}\.term\.get_value\(\)', txt)
        m2 = re.fullmatch(rf'if {tv}\.condition\.get_value\(\) != 0(?:\.0)?:\n    (\w+) \+= {tv}\.term\.get_value\(\)', txt)
        mm = m or m2
        if mm:
            acc = mm.group(mm.lastindex)
            ok = unparse(f.body[-1]) == f'return {acc}' and any(unparse(s) in (f'{acc} = 0.0', f'{acc} = 0') for s in f.body)
    ctx.add(R, 'ConditionalSum.get_value', ok, f, 'ConditionalSum adds term iff its own condition is non-zero' if ok else 'ConditionalSum.get_value is not sum(term if condition != 0)', ' ; '.join(unparse(s) for s in f.body)[:200])
    f = gv('Elem')
    ok = has(f.node, """
_K = int(self.keyExpression.get_value())
if _K in self.dict_of_expressions:
    return self.dict_of_expressions[_K].get_value()
___
raise BiogemeError(__MSG)
""")
    ctx.add(R, 'Elem.get_value', ok, f, 'Elem returns the entry selected by int(key), BiogemeError otherwise' if ok else 'Elem.get_value does not select the entry of int(key)', 'elem')
    f = gv('Numeric')
    ok = len(f.body) == 1 and unparse(f.body[0]) == 'return self.value'
    ctx.add(R, 'Numeric.get_value', ok, f, 'Numeric returns its value' if ok else 'Numeric.get_value', unparse(f.body[-1]))
    f = gv('Beta')
    ok = len(f.body) == 1 and unparse(f.body[0]) == 'return self.initValue'
    ctx.add(R, 'Beta.get_value', ok, f, 'Beta returns its current value' if ok else 'Beta.get_value', unparse(f.body[-1]))
    _loglogit_value(ctx)


def _loglogit_value(ctx: Ctx) -> None:
    prog = ctx.prog
    R = 'C01.R6'
    c = prog.find_class('LogLogit', 'expressions')
    f = c.methods['get_value']
    ar = AttrRoles(prog, c)
    U = next((a for a, r in ar.roles.items() if r == {'@0'}), None)
    CH = next((a for a, r in ar.roles.items() if r == {'@2'}), None)
    AV = next((a for a, r in ar.roles.items() if '@1' in r), None)
    if not (U and CH and AV):
        raise AnalysisError('C01.R6: attributes of LogLogit holding util / av / choice not identified')
    U, CH, AV = f'self.{U}', f'self.{CH}', f'self.{AV}'
    eU, eAV = re.escape(U), re.escape(AV)
    # 1. every return that is constant is a valid log-probability (<= 0)
    for n in walk_no_nested(f.node):
        if isinstance(n, ast.Return) and n.value is not None:
            t = unparse(n.value).replace(' ', '')
            const = None
            if t in ('-np.inf', '-numpy.inf', '-math.inf', "float('-inf')"):
                const = float('-inf')
            elif t in ('-np.log(0)', '-numpy.log(0)', 'np.inf', '-np.log(0.0)'):
                const = float('inf')
            else:
                try:
                    const = float(const_value(n.value))
                except (ValueError, TypeError):
                    const = None
            if const is not None:
                ctx.add(R, 'LogLogit.get_value:unavailable', const <= 0, (f.file, n.lineno),
                        f'returns {unparse(n.value)} = {const}' + ('' if const <= 0 else ': not a log-probability (must be <= 0; -inf for an unavailable chosen alternative)'),
                        unparse(n.value))
    t0 = unparse(f.body[0])
    m0 = re.fullmatch(rf'(\w+) = int\({re.escape(CH)}\.get_value\(\)\)', t0)
    ctx.add(R, 'LogLogit.get_value:choice', bool(m0), f, 'the chosen alternative is int(choice value)' if m0 else f'choice is computed as {t0}', t0)
    cv = m0.group(1) if m0 else 'choice'
    # 2./3. shape with holes: the tests and the term are then compared one by one
    b = find(f.node, f"""
        _C = int({CH}.get_value())
        ___
        if __T:
            return __R
        _VC = {U}[_C].get_value()
        _D = 0.0
        for _I, _V in {U}.items():
            if __G:
                _D += __TERM
        return __RET
    """)
    if b is None:
        ctx.add(R, 'LogLogit.get_value:chosen-availability', None, f, 'the body of LogLogit.get_value is not in the expected form (choice, availability test, shifted sum over util.items(), log)', 'av[choice]')
        ctx.add(R, 'LogLogit.get_value:denominator', None, f, 'the body of LogLogit.get_value is not in the expected form', 'denominator')
        return
    roles = {b['_C']: 'the chosen alternative', b['_I']: 'the alternative of the current term'}

    def guard(node: ast.expr, index: str, want: str) -> tuple[bool | None, str]:
        """the test `node` is `availability of alternative <index> is <want>` (zero / nonzero), in any spelling of a test against 0.
        False only for a named other test: inverted, availability of another alternative, utility instead of availability"""
        zt = _zero_test(node)
        if zt is None:
            return None, 'is not a test of a value against 0'
        subj, pol = zt
        if isinstance(subj, ast.Name):
            subj = inline_locals(f.node, subj)
        if not (isinstance(subj, ast.Call) and isinstance(subj.func, ast.Attribute) and subj.func.attr == 'get_value' and not subj.args and not subj.keywords
                and isinstance(subj.func.value, ast.Subscript)):
            return None, 'does not test the value of an entry of a dictionary'
        table, idx = unparse(inline_locals(f.node, subj.func.value.value)), subj.func.value.slice
        same = unparse(inline_locals(f.node, idx)) == unparse(inline_locals(f.node, ast.Name(id=index, ctx=ast.Load())))
        if table == AV and same:
            return (True, '') if pol == want else (False, f'is true when the availability of {roles[index]} is {"not " if want == "zero" else ""}0: the comparison is inverted')
        if table == U and same:
            return False, f'reads the utility of {roles[index]}, not its availability'
        if table == AV and (isinstance(idx, ast.Constant) or (isinstance(idx, ast.Name) and idx.id in roles and idx.id != index)):
            return False, f'reads the availability of {roles[idx.id] if isinstance(idx, ast.Name) else "alternative " + unparse(idx)}, not the one of {roles[index]}'
        return None, 'does not read the availability in a form the rule follows'

    ok_un, why = guard(b['__T'][1], b['_C'], 'zero')
    ctx.add(R, 'LogLogit.get_value:chosen-availability', ok_un, f,
            'zero probability is returned iff av[choice] == 0' if ok_un else f'the test before the early return, {bound(b, "__T")}, {why}',
            bound(b, '__T'), positive=ok_un is False)
    ok_g, why = guard(b['__G'][1], b['_I'], 'nonzero')
    ok_t = expr_is(b['__TERM'][1], 'np.exp(_V.get_value() - _VC)', b) is not None
    ok_r = expr_is(b['__RET'][1], '-np.log(_D)', b) is not None
    # named contradictions of the formula: the shift has the other sign, the logarithm is not negated
    inv_t = expr_is(b['__TERM'][1], 'np.exp(_VC - _V.get_value())', b) is not None
    inv_r = expr_is(b['__RET'][1], 'np.log(_D)', b) is not None
    det = f'if {bound(b, "__G")}: += {bound(b, "__TERM")}; return {bound(b, "__RET")}'
    if ok_g and ok_t and ok_r:
        ctx.add(R, 'LogLogit.get_value:denominator', True, f, 'log P = -log(sum over available i of exp(V_i - V_chosen)), each term guarded by av of the same key', det)
    elif ok_g is False or inv_t or inv_r:
        what = f'the guard {bound(b, "__G")} {why}' if ok_g is False else f'the term is {bound(b, "__TERM")}, the exponential of V_chosen - V_i' if inv_t else f'{bound(b, "__RET")} is +log of the sum'
        ctx.add(R, 'LogLogit.get_value:denominator', False, f, f'LogLogit.get_value: {what}; the formula is -log(sum over i with av[i] != 0 of exp(V_i - V_chosen))', det, positive=True)
    else:
        ctx.add(R, 'LogLogit.get_value:denominator', None, f,
                f'LogLogit.get_value: {det[:160]} is not in a form the rule compares with -log(sum over i with av[i] != 0 of exp(V_i - V_chosen))' + (f' (the guard {why})' if not ok_g else ''), det)


def _zero_test(e: ast.expr) -> tuple[ast.expr, str] | None:
    """(x, 'zero' | 'nonzero') when e tests the number x against 0: `x == 0`, `0 == x`, `x != 0.0`, `not x`, `x` (the truth of a number
    is `x != 0`), `not (x == 0)`, ...; None for any other test"""
    def is0(n):
        return isinstance(n, ast.Constant) and isinstance(n.value, (int, float)) and not isinstance(n.value, bool) and n.value == 0

    if isinstance(e, ast.Compare):
        if len(e.ops) != 1 or not isinstance(e.ops[0], (ast.Eq, ast.NotEq)):
            return None
        l, r = e.left, e.comparators[0]
        subj = l if is0(r) else r if is0(l) else None
        if subj is None:
            return None
        return subj, 'zero' if isinstance(e.ops[0], ast.Eq) else 'nonzero'
    if isinstance(e, ast.UnaryOp) and isinstance(e.op, ast.Not):
        inner = _zero_test(e.operand)
        return None if inner is None else (inner[0], 'zero' if inner[1] == 'nonzero' else 'nonzero')
    if isinstance(e, (ast.BoolOp, ast.IfExp)):
        return None
    if isinstance(e, ast.Call) and isinstance(e.func, ast.Name) and e.func.id == 'bool' and len(e.args) == 1 and not e.keywords:
        return _zero_test(e.args[0])
    return e, 'nonzero'


# --------------------------------------------------------------------------


def _tuple_fields(prog: Program, c: ClassInfo) -> dict[str, list[str]]:
    """'@k' -> field names, for the constructor parameters annotated as a collection of a NamedTuple class of the package"""
    out: dict[str, list[str]] = {}
    init = c.resolve('__init__')
    if init is None:
        return out
    for k, p_ in enumerate(init.node.args.args[1:]):
        if p_.annotation is None:
            continue
        for n in ast.walk(p_.annotation):
            if isinstance(n, ast.Name):
                cands = [k_ for k_ in prog.all_classes() if k_.name == n.id and k_.fields and 'NamedTuple' in k_.external_bases()]
                if len(cands) == 1:
                    out[f'@{k}'] = [f_[0] for f_ in cands[0].fields]
    return out


_FIELD_HEAD = re.compile(r'\{(CLS|ID|LEN|IDX|VAL|FMT)(?=[:}])')


def _fields_of(tpl: str) -> list[tuple[str, str]]:
    """(kind, reference) of every field of a rendered template; the reference extends to the brace that closes the field, whatever
    braces it contains (an f-string with doubled braces).  A field whose closing brace is not found is returned with what follows it as
    reference, so that it is never dropped silently."""
    out = []
    i = 0
    while i < len(tpl):
        m = _FIELD_HEAD.match(tpl, i)
        if m is None:
            i += 1
            continue
        k, depth = m.end(), 1
        while k < len(tpl) and depth:
            depth += (tpl[k] == '{') - (tpl[k] == '}')
            k += 1
        body = tpl[m.end():k - 1] if not depth else tpl[m.end():]
        out.append((m.group(1), body[1:] if body.startswith(':') else body))
        i = k
    return out


def _record_verdict(got: str, want: str, attr_roles: dict[str, set[str]] | None = None, children_known: bool = False) -> tuple[bool | None, str]:
    """(verdict, reason).  True: the template interpreted from the writer is the reader's.  False (a contradiction) only when the two
    templates are made of the same material - every reference of the writer's fields and every loop of the writer occur in the reader's
    template, so that the role of each field is established - and the sequence of fields differs; or when a loop pairs by position two
    dictionaries the reader pairs by key.  None: a field, loop or children statement is not one whose role is established."""
    if got == want:
        return True, ''
    if OPEN in got:
        return None, 'a statement on the list of children is not followed'
    # pairing by position: for .. in zip(D.items(), E.values()) where the reader reads E[key of D]
    for m in re.finditer(r'⟦for [^ ]+ in zip\(([^⟧:]*)\): ', got):
        parts = [re.sub(r'\.(items|values|keys)\(\)$', '', x.strip()) for x in m.group(1).split(', ')]
        if len(parts) == 2 and parts[0] != parts[1] and all(re.fullmatch(r'@\d+|self\.\w+', x) for x in parts):
            def own_order(x: str, y: str) -> bool:
                # x may list its keys in another order than y: it is another constructor parameter, or an attribute filled from one
                if x.startswith('@'):
                    return True
                return any(r.startswith('@') and r.split('#')[0] != y for r in (attr_roles or {}).get(x[5:], set()))

            for d, e in (parts, parts[::-1]):
                if own_order(e, d) and re.search(r'⟦for [^ ]+ in ' + re.escape(d) + r'(?:\.items\(\))?: [^⟧]*' + re.escape(e) + r'\[\$', want):
                    return False, f'{d} and {e} are paired by position; the reader pairs them by key ({e}[key of {d}]): the two dictionaries need not list their keys in the same order'

    def loops_of(tpl: str) -> set:
        return set(re.findall(r'⟦for ([^ ]+) in ([^:⟧]+): ', tpl))

    def field_refs(tpl: str) -> set[str]:
        out = set()
        for k, r in _fields_of(tpl):
            if k == 'FMT':
                out.add('FMT:' + r)
            elif k == 'IDX':
                out.add(r.split(':', 1)[1] if ':' in r else r)  # the table is established by the leaf-id rule; the owner is the reference
            elif k != 'CLS':
                out.add(r)
        return out

    g_refs, w_refs = field_refs(got), field_refs(want)
    g_loops, w_loops = loops_of(got), loops_of(want)
    # the list of children has an established role of its own (its content is the children template, decided separately)
    new_refs = sorted(g_refs - w_refs - ({CHILDREN} if children_known else set()))
    new_loops = sorted(f'for {v} in {it}' for v, it in g_loops - w_loops)
    gg, gw = re.fullmatch(r'GENERIC\[(.*)\]', got), re.fullmatch(r'GENERIC\[(.*)\]', want)
    if gg and gw:
        # the generic record lists the children: the same children in another order is a contradiction, another set of children is not
        # decided (a child may be added in a way the constructor interpreter does not follow)
        gi, wi = gg.group(1).split(' ; '), gw.group(1).split(' ; ')
        if sorted(gi) == sorted(wi):
            return False, 'the same children in another order'
        return None, 'the children are not the ones of the reader: how the list of children is built is not fully followed'
    if gg or gw:
        return None, 'one side writes the generic record, the other a record of its own'
    if new_refs or new_loops:
        return None, 'role of ' + ', '.join(new_refs + new_loops) + ' not established'
    return False, 'same fields and loops as the reader, in another arrangement'


#: obligations whose failure contradicts the property (rule, construct pattern, why); every other failure is 'not recognised'
POSITIVE: list[tuple[str, str, str]] = [
    ('C01.R1', r'^Expression\.__\w+__$', 'every return of the operator dunder (a delegation to another dunder followed) is the construction of an expression class whose arguments are self / the '
     'operand, and the class or the order is not the one of the Python data model; anything else returned leaves the verdict open'),
    ('C01.R3', r':record$', 'every field and loop of the record interpreted from get_signature occurs in the template the engine parses for this tag (roles established) and the sequence differs, '
     'or two dictionaries the reader pairs by key are paired by position; a field / loop / children statement whose role is not established leaves the verdict open (_record_verdict)'),
    ('C01.R4', r'\.get_signature$', 'an id written in the record belongs to an identified node (parameter, attribute, element of one) whose signature is not emitted before it; unidentified owners leave it open'),
    ('C01.R9', r':appearance-order$', 'a positional sequence follows the insertion order of a dictionary of parameters'),
    ('C01.R9', r'_betas\.expressions\[', 'a per-parameter vector is indexed by names of another kind / another order'),
    ('C01.R8', r'calculate_function_and_derivatives:the_cpp\.', 'an argument handed to the engine has another role than the slot the engine reads'),
    ('C01.R6', r'^(Equal|NotEqual|LessOrEqual|GreaterOrEqual|Less|Greater|And|Or|bioMin|bioMax|logzero|PowerConstant)\.get_value$', 'truth table / case table obtained by interpreting the method over the finite abstraction of its operands: '
     'a case in which the interpreter folds the result to a definite value that is not the one of the table; a result it cannot fold leaves the verdict open (settle)'),
    ('C01.R6', r':(unavailable|chosen-availability|denominator)$', 'LogLogit.get_value matched with holes: a constant return that is not a log-probability; an availability test that is inverted, reads another '
     'alternative or the utility; the shift or the logarithm with the other sign.  Any other spelling leaves the verdict open'),
]


def run(ctx: Ctx) -> None:
    ctx.positive_table = list(POSITIVE)
    prog = ctx.prog
    ctx.rule('C01.R1', 'opcode table: every operator dunder of Expression returns the class of the Python data-model table with (self, other) for the '
             'direct and (other, self) for the reflected form, after the operand guard is_numeric(other) or isinstance(other, Expression)')
    ctx.rule('C01.R2', 'operand roles: every constructor parameter annotated ExpressionOrNumeric, or stored among the children, passes through validate_and_convert before it is stored; '
             'the children list is built from the constructor parameters in the order the reader expects')
    ctx.rule('C01.R3', 'record layout writer <-> reader: the record template of the resolved get_signature of every serialisable class equals the '
             'grammar entry of bioFormula.cc::processFormula for its tag; every concrete Expression subclass has a tag or is in the frozen non-serialised list')
    ctx.rule('C01.R4', 'post-order: every child whose id appears in the own record has its signature appended before, and the own record is appended last')
    ctx.rule('C01.R5', 'leaf-id table: class <-> enum constant <-> IdManager table <-> id attribute <-> signature field; free/fixed predicate status == 0')
    ctx.rule('C01.R6', 'Python evaluator: arithmetic operators by extraction, comparison/logical/min/max by exhaustive interpretation over the finite '
             'abstraction of their operands ({<,=,>} resp. {0,non-zero}^2), unary functions, n-ary sums, Elem, LogLogit (log-probabilities <= 0, '
             'availability-guarded denominator)')
    ctx.rule('C01.R7', 'literals: validate_and_convert turns every accepted Python literal into Numeric(that value); Numeric stores float(value) and serialises it')
    ctx.rule('C01.R8', 'engine-call contract of calculator.calculate_function_and_derivatives (roles of every argument handed to pyEvaluateOneExpression)')
    ctx.rule('C01.R9', 'value vectors follow the id tables (ORD): free_betas_values / fixed_betas_values / bounds are built over the sorted names of the matching kind, '
             'the same order that defines betaId, so that parameter k of the engine is the parameter whose record carries id k')
    ctx.rule('C01.R10', 'who may write: the id manager of a node is assigned only by set_id_manager (which also renumbers the node and hands the manager to the children) and by the constructor; '
             'a plain store elsewhere leaves the ids of the sub-formulas with the manager that was replaced')
    ctx.not_decided += ['the arithmetic of the compiled engine (outside /repo)', 'ConditionalSum terms sharing one condition object collide inside the engine (unordered_map keyed by the condition)']

    E = prog.cls(BASE, 'Expression')
    # ---- R10
    n_w = 0
    expr_classes = [E] + prog.subclasses(E)
    WRITERS = ('set_id_manager', '__init__')

    def private(name: str) -> bool:
        """`_x` and the name-mangled `__x` are private helpers; `__x__` is a special method"""
        return name.startswith('_') and not (name.startswith('__') and name.endswith('__'))

    def stores_manager(n: ast.AST) -> bool:
        """the statement binds self.id_manager: plain, chained, tuple-target, annotated or augmented store"""
        def flat(t):
            if isinstance(t, (ast.Tuple, ast.List)):
                for e_ in t.elts:
                    yield from flat(e_)
            elif isinstance(t, ast.Starred):
                yield from flat(t.value)
            else:
                yield t

        tg = n.targets if isinstance(n, ast.Assign) else [n.target] if isinstance(n, (ast.AnnAssign, ast.AugAssign)) and getattr(n, 'value', None) is not None else []
        return any(unparse(x) == 'self.id_manager' for t in tg for x in flat(t))

    def writer_part(c_: ClassInfo, m_: FuncInfo, seen: frozenset = frozenset()) -> bool | None:
        """a private method is part of set_id_manager / the constructor when every call of it in the package is `self.<name>(...)` written in
        set_id_manager / __init__ of an expression class (or in another such private part).  True: it is; False: it is called from another
        method (named in the message); None: nothing calls it, or a call is not followed"""
        if not private(m_.name) or m_.name in seen:
            return None
        sites = prog.callers_of(m_.name)
        if not sites:
            return None
        verdict: bool | None = True
        for g_, call_ in sites:
            recv_self = isinstance(call_.func, ast.Attribute) and unparse(call_.func.value) in ('self', 'super()')
            if g_.cls is None or g_.cls not in expr_classes or not recv_self:
                verdict = None  # a call on another object, or from outside the expression classes: not followed
            elif m_.name.startswith('__') and g_.cls is not c_:
                verdict = None  # a name-mangled helper is reached only from the class that defines it: another `__x` of another class
            elif g_.name in WRITERS:
                continue
            elif private(g_.name):
                sub = writer_part(g_.cls, g_, seen | {m_.name})
                if sub is False:
                    return False
                if sub is None:
                    verdict = None
            else:
                return False  # reached from another public method of the node
        return verdict

    for c_ in expr_classes:
        for m_ in c_.methods.values():
            if getattr(m_.node, '_verif_transparent', False):
                continue  # a new helper whose calls were all expanded in place: its statements are examined where it is called
            for a_ in walk_no_nested(m_.node):
                if stores_manager(a_):
                    okw: bool | None = m_.name in WRITERS
                    if not okw:
                        okw = writer_part(c_, m_)
                        if okw is None and not private(m_.name):
                            okw = False
                    n_w += bool(okw)
                    ctx.add('C01.R10', f'{c_.name}.{m_.name}:self.id_manager', okw, (m_.file, a_.lineno),
                            'the id manager is assigned by set_id_manager / the constructor' if okw else
                            (f'{c_.name}.{m_.name} stores `self.id_manager = {unparse(a_.value)}`: the calls of this private method are not all followed to set_id_manager / the constructor' if okw is None else
                             f'{c_.name}.{m_.name} stores `self.id_manager = {unparse(a_.value)}` directly: only this node changes manager, the elementary expressions below it keep the ids (elementaryIndex, betaId, variableId) they '
                             'were given under the other manager, and a formula that shares them is evaluated with the ids of another numbering'), unparse(a_), positive=okw is False)
    if n_w < 4:
        raise AnalysisError(f'C01.R10: only {n_w} assignments of self.id_manager in set_id_manager / __init__ found')
    # ---- R1
    from ..pattern import has as _has

    def class_named(fn: ast.expr, fnode: ast.AST) -> ClassInfo | None:
        """the expression class a callee denotes inside the method `fnode` of Expression: a name bound by an import written in the method
        is the imported symbol (`from m import Minus as Plus` makes Plus the class Minus), a name bound in any other way in the method is
        not followed, any other name / dotted name is resolved through the imports of the module"""
        if isinstance(fn, ast.Name):
            binders = [n for n in ast.walk(fnode) if (isinstance(n, (ast.Import, ast.ImportFrom)) and any((a.asname or a.name.split('.')[0]) == fn.id for a in n.names))
                       or (isinstance(n, ast.Name) and n.id == fn.id and not isinstance(n.ctx, ast.Load)) or (isinstance(n, ast.arg) and n.arg == fn.id)
                       or (isinstance(n, (ast.FunctionDef, ast.ClassDef)) and n is not fnode and n.name == fn.id)]
            if binders:
                if not all(isinstance(n, ast.ImportFrom) for n in binders):
                    return None
                real = {a.name for n in binders for a in n.names if (a.asname or a.name) == fn.id}
                return next((c_ for c_ in expr_classes if c_.name in real), None) if len(real) == 1 else None
            r_ = prog.resolve_name(E.module, fn.id)
            return r_[1] if r_ is not None and r_[0] == 'class' and r_[1] in expr_classes else None
        if isinstance(fn, ast.Attribute):
            r_ = prog.resolve_expr(E.module, fn)
            if r_ is not None:
                return r_[1] if r_[0] == 'class' and r_[1] in expr_classes else None
            return next((c_ for c_ in expr_classes if c_.name == fn.attr), None)
        return None

    def ctor_roles(call: ast.Call, fnode: ast.AST) -> tuple | None:
        """(class, [text of the argument given to each constructor parameter, in parameter order]) for the construction of an expression
        class, keyword and positional arguments alike, locals resolved; None when the call is anything else"""
        cls_ = class_named(call.func, fnode)
        init_ = cls_.resolve('__init__') if cls_ is not None else None
        if init_ is None or any(isinstance(x, ast.Starred) for x in call.args) or any(k.arg is None for k in call.keywords):
            return None
        params_ = init_.positional_params()[1:]
        slots: dict[str, ast.expr] = {}
        for i_, x in enumerate(call.args):
            if i_ >= len(params_):
                return None
            slots[params_[i_]] = x
        for k in call.keywords:
            if k.arg not in params_ or k.arg in slots:
                return None
            slots[k.arg] = k.value
        out = []
        for p_ in params_:
            if p_ not in slots:
                break
            out.append(inline_locals(fnode, slots[p_]))
        if len(out) != len(slots):
            return None
        return cls_.name, out

    def dunder_facts(dunder: str, depth: int = 0) -> tuple[list, bool]:
        """what an operator dunder of Expression returns: [(class, [argument texts]) | ('?', text)], in terms of `self` and the name of its
        own second parameter; and whether its operand is checked first.  `return self.__other_dunder__(x)` is what that dunder returns."""
        f_ = E.methods[dunder]
        other_ = f_.positional_params()[1] if len(f_.positional_params()) > 1 else None
        built_: list = []
        delegated: list[bool] = []
        # a method that binds `self` or its operand again: what the names stand for at a return is not followed
        rebound = sorted({n.id for n in ast.walk(f_.node) if isinstance(n, ast.Name) and not isinstance(n.ctx, ast.Load) and n.id in ('self', other_)}
                         | {n.target.id for n in ast.walk(f_.node) if isinstance(n, ast.NamedExpr) and n.target.id in ('self', other_)})
        for r_ in [n for n in walk_no_nested(f_.node) if isinstance(n, ast.Return)]:
            if rebound:
                built_.append(('?', f'{unparse(r_.value) if r_.value is not None else "None"} [{", ".join(rebound)} bound again in the method]'))
                continue
            v_ = inline_locals(f_.node, r_.value) if r_.value is not None else None
            if isinstance(v_, ast.Call) and isinstance(v_.func, ast.Attribute) and unparse(v_.func.value) == 'self' and v_.func.attr in E.methods and v_.func.attr != dunder \
                    and v_.func.attr in OPERATOR_TABLE and depth < 3 and not any(isinstance(x, ast.Starred) for x in v_.args) and all(k.arg for k in v_.keywords):
                # `return self.__truediv__(other)`: what that dunder of the same class returns, its operand being the argument given here
                tgt = E.methods[v_.func.attr]
                tparams = tgt.positional_params()[1:]
                given = [unparse(x) for x in v_.args] + [unparse(k.value) for k in v_.keywords if k.arg in tparams[len(v_.args):]]
                if len(given) == len(tparams) == len(v_.args) + len(v_.keywords) and all(g_ in ('self', other_) for g_ in given):
                    tb, tg = dunder_facts(v_.func.attr, depth + 1)
                    ren = dict(zip(tparams, given))
                    built_ += [b_ if b_[0] == '?' else (b_[0], [re.sub(r'(?<![\w.])([A-Za-z_]\w*)(?!\w)', lambda m_: ren.get(m_.group(1), m_.group(1)), x) for x in b_[1]]) for b_ in tb]
                    delegated.append(tg)
                    continue
            rc = ctor_roles(v_, f_.node) if isinstance(v_, ast.Call) else None
            built_.append(('?', unparse(r_.value) if r_.value is not None else 'None') if rc is None else (rc[0], [unparse(x) for x in rc[1]]))
        if dunder == '__neg__':
            guard_ = True
        elif dunder == '__pow__':
            guard_ = isinstance(f_.body[-1], ast.Raise) and all(
                isinstance(st, (ast.If, ast.ImportFrom, ast.Raise, ast.Expr)) or (isinstance(st, ast.Assign) and isinstance(st.value, (ast.JoinedStr, ast.Constant))) for st in f_.body
            )
        else:
            guard_ = _has(f_.node, f'if not (is_numeric({other_}) or isinstance({other_}, Expression)):\n    ___\n    raise __EXC')
        if delegated and all(delegated) and all(isinstance(st, (ast.Return, ast.ImportFrom)) or (isinstance(st, ast.Assign) and isinstance(st.targets[0], ast.Name)) for st in f_.body):
            guard_ = True  # nothing but the call of a dunder that checks the operand
        return built_, bool(guard_)

    n1 = 0
    for dunder, (cname, reflected) in OPERATOR_TABLE.items():
        f = E.methods.get(dunder)
        if f is None:
            raise AnalysisError(f'C01.R1: Expression.{dunder} not found')
        other = f.positional_params()[1] if len(f.positional_params()) > 1 else None
        built, guard_ok = dunder_facts(dunder)
        n1 += 1
        roles_ = {'self', other}
        # every return is the construction of an expression class whose arguments are self / the other operand: the roles are established
        understood = bool(built) and all(b[0] != '?' and all(x in roles_ for x in b[1]) for b in built)
        if dunder == '__neg__':
            ok = built == [('UnaryMinus', ['self'])]
        elif dunder == '__pow__':
            # numeric exponent -> PowerConstant(child=self, exponent=<the number given>); expression -> Power(self, other)
            def pc(b):
                return b[0] == 'PowerConstant' and len(b[1]) == 2 and b[1][0] == 'self' and re.search(rf'(?<![\w.]){re.escape(other)}(?!\w)', b[1][1]) is not None

            def wrong(b):  # another class, or the operands in other slots: roles established and not those of the data model
                return b[0] != '?' and all(x in roles_ for x in b[1]) if b[0] != 'PowerConstant' else len(b[1]) == 2 and b[1][0] in roles_ and b[1][0] != 'self'

            ok = ('Power', ['self', other]) in built and all(b == ('Power', ['self', other]) or pc(b) for b in built)
            understood = bool(built) and all(b == ('Power', ['self', other]) or pc(b) or wrong(b) for b in built)
        else:
            # every return builds the class of the table with the operands in the order of the table (a fast path and a general path
            # may both return); a return that builds another class / the operands in another order is the contradiction
            want = [other, 'self'] if reflected else ['self', other]
            ok = bool(built) and all(b == (cname, want) for b in built)
        ctx.add('C01.R1', f'Expression.{dunder}', ok if (ok or understood) else None, f,
                f'{dunder} builds ' + ', '.join(f'{b[0]}({", ".join(b[1]) if isinstance(b[1], list) else b[1]})' for b in built) + ('' if ok else f'; the data model requires {cname}({"other, self" if reflected else "self, other"})')
                + ('' if ok or understood else ' (what is returned is not the construction of an expression class from self and the operand: not followed)'),
                detail=str(built))
        if dunder != '__neg__':
            ctx.add('C01.R1', f'Expression.{dunder}:guard', guard_ok, f, 'operand is checked before the node is built' if guard_ok else f'{dunder} builds a node without checking that the operand is numeric or an Expression', 'guard')
    ctx.floor('C01.R1', 40)

    id_attrs = leaf_tables(ctx)

    # ---- reader tags
    if os.path.exists(BIOFORMULA):
        tags = set(re.findall(r'typeOfExpression == "(\w+)"', open(BIOFORMULA, encoding='utf-8', errors='replace').read()))
        if tags != READER_TAGS:
            raise AnalysisError(f'C01.R3: frozen reader grammar differs from the installed bioFormula.cc: {sorted(tags ^ READER_TAGS)}')
    else:
        ctx.note('C01.R3: bioFormula.cc absent; frozen reader grammar not cross-checked')

    # ---- R2 / R3 / R4 per class
    generic = E.methods['get_signature']
    rt = RecordTemplate(prog, generic, {}, id_attrs)
    okg = rt.render() == GENERIC and rt.emits_children and rt.own_last
    ctx.add('C01.R3', 'Expression.get_signature', okg, generic, 'generic record is <Tag>{id}(n),child ids in children order, children emitted first' if okg else f'generic record template is {rt.render()}', rt.render())
    classes = [E] + prog.subclasses(E)
    seen_tags = set()
    for c in classes:
        if c.name in NOT_SERIALISED:
            continue
        where = c
        if c.name not in EXPECTED:
            ctx.add('C01.R3', f'{c.name}:tag', False, where, f'class {c.name} is a concrete Expression but the engine grammar has no tag {c.name} and it is not in the non-serialised list', c.name)
            continue
        seen_tags.add(c.name)
        ar = AttrRoles(prog, c)
        gs = c.resolve('get_signature')
        if gs is generic:
            got = f'GENERIC[{ar.children_template()}]'
            refs_ok = True
            own_last = True
        else:
            # the first children, those added one by one: self.children[k] in the record is the k-th of them
            first_children = []
            for it_ in ar.children:
                if it_[0] != 'item':
                    break
                first_children.append(render_items([it_], ar.attr_map()))
            # `self.<id attribute>` of a leaf is the table its own set_id_manager reads; the attributes of other objects keep the union
            own_ids = next((id_attrs.per_class[k_.name] for k_ in c.mro() if k_.name in getattr(id_attrs, 'per_class', {})), {})
            t = RecordTemplate(prog, gs, ar.attr_map(), {**id_attrs, **own_ids}, children=first_children, tuple_fields=_tuple_fields(prog, c))
            got = t.render()
            own_last = t.own_last
            # R4 coverage on the level of the base attribute / parameter
            def base(ref: str) -> str:
                m = re.match(r'(@\d+(?:#\d+)?|self\.\w+|\$\d+)', ref)
                return m.group(1) if m else ref

            def resolved(x: str) -> bool:
                return re.fullmatch(r'@\d+(?:#\d+)?|self\.\w+', x) is not None or x == CHILDREN

            covered = set()
            em_loops: dict[str, set[str]] = {}  # iterated text of an emission loop -> what is emitted in it
            emitted_open = []  # emitted signatures whose owner is not resolved to a parameter / attribute
            PART = r'(@\d+(?:#\d+)?|self\.\w+)(?:\.values\(\)|\.items\(\))?'
            for e in t.emitted:
                m = re.match(r'⟦(.*)⟧(.*)', e)
                if m:
                    em_loops.setdefault(m.group(1), set()).add(m.group(2))
                    parts = m.group(1).split(' + ')
                    if len(parts) > 1 and all(re.fullmatch(PART, x) for x in parts):
                        # one loop over the concatenation of several collections: the elements of each of them
                        for x in parts:
                            covered.add(base(x) + ':' + m.group(2))
                        continue
                    covered.add(base(m.group(1)) + ':' + m.group(2) if m.group(1) != CHILDREN else CHILDREN)
                    if not resolved(base(m.group(1))):
                        emitted_open.append(e)
                else:
                    covered.add(base(e))
                    if not resolved(base(e)):
                        emitted_open.append(e)
            # (the statements on the list of children that are not followed establish nothing about what the list holds)
            child_bases = {base(x) for x in re.findall(r'@\d+(?:#\d+)?|self\.\w+', re.sub(r'\?⟨[^⟩]*⟩', '', ar.children_template()))}

            def elements_emitted(s_: str) -> bool:
                """the signature of every element of the collection s_ is emitted"""
                return (CHILDREN in covered and (s_ in child_bases or s_ == CHILDREN)) or any(cv.startswith(s_ + ':') for cv in covered)

            missing = []
            unresolved = []
            # loop-variable refs are attributed to the iterated container
            txt = got
            loops = re.findall(r'⟦for ([^ ]+) in ([^:]+): ([^⟧]*)⟧', txt)
            loopsrc = {}
            loopit = {}
            for vars_, it, _ in loops:
                for v in vars_.split(','):
                    loopsrc[v] = base(it)
                    loopit[v] = it
            for ref in t.id_refs():
                b = base(ref)
                if b.startswith('$'):
                    src = loopsrc.get(b, b)
                    srcs = {src}
                    if src.startswith('self.') and src not in child_bases and ar.sources.get(src[5:]):
                        srcs = set(ar.sources[src[5:]])
                    okc = all(elements_emitted(s_) for s_ in srcs)
                    same = em_loops.get(loopit.get(b, ''))
                    if okc and same and CHILDREN not in covered and ref == b and all(re.fullmatch(r'\$\d+', x) for x in same) and b not in same \
                            and not any(cv.startswith(src + ':') for it_, refs_ in em_loops.items() if it_ != loopit[b] for cv in [base(it_) + ':']):
                        # the signatures are emitted in a loop written like the loop of the record (same collection, same variables), and the
                        # variable whose id is written is not one of those whose signature is emitted
                        okc = False
                    known = resolved(src)
                else:
                    # the node itself, or (for an entry `b[key]` of a collection) every element of the collection
                    okc = b in covered or (CHILDREN in covered and b in child_bases) or (ref.startswith(b + '[') and elements_emitted(b))
                    known = resolved(b)
                if not okc:
                    (missing if known else unresolved).append(ref)
            # an id is reported as never emitted only when the node it belongs to is identified (a parameter, an attribute, an element of one of
            # them) and every emitted signature is attributed as well; otherwise the coverage is not decided
            undecided = bool(unresolved or (missing and (emitted_open or OPEN in ar.children_template())))
            refs_ok = not missing and not unresolved
            ctx.add('C01.R4', f'{c.name}.get_signature', None if (undecided and own_last) else (refs_ok and own_last), gs,
                    'children referenced in the record are emitted before it; own record last' if refs_ok and own_last
                    else (f'ids whose node is not identified, emission not decided: {unresolved + missing}' if undecided and own_last else
                          f'ids referenced but never emitted before the record: {missing}' if missing else 'own record is not the last element of the returned list'),
                    detail=str(missing + unresolved) + str(own_last))
        want = EXPECTED[c.name]
        if gs is not generic and got == GENERIC and t.emits_children and t.own_last:
            got = f'GENERIC[{ar.children_template()}]'  # an own get_signature that writes the generic record
        # the list of children of a class whose children are exactly the elements of one parameter is that parameter
        only = re.fullmatch(r'⟦for \$0 in (@\d+): \$0⟧|\*(@\d+)', ar.children_template())
        if only and gs is not generic:
            got = re.sub(rf'(?<![\w.]){CHILDREN}(?![\w\[])', only.group(1) or only.group(2), got)
        ok, why = _record_verdict(got, want, ar.roles, children_known=OPEN not in ar.children_template())
        ctx.add('C01.R3', f'{c.name}:record', ok, gs if gs is not generic else c,
                f'<{c.name}> record: {got}' + ('' if ok else f' ; the reader parses: {want}' + (f' ({why})' if why else '')), detail=got, positive=ok is False)
        # R2: conversion of every ExpressionOrNumeric parameter
        init = c.resolve('__init__')
        if init is not None:
            a = init.node.args
            for i, p in enumerate(a.args[1:]):
                ann = unparse(p.annotation) if p.annotation is not None else ''
                role = f'@{i}'
                # an operand is a parameter annotated ExpressionOrNumeric or one that ends up among the children
                if 'ExpressionOrNumeric' not in ann and re.search(rf'@{i}(?![#\d])', ar.children_template() or '') is None:
                    continue
                conv = any(ar.converted.get(attr) for attr, rs in ar.roles.items() if role in rs) or _children_converted(prog, c, init, p.arg)
                ctx.add('C01.R2', f'{c.name}.__init__({p.arg})', conv, init,
                        f'parameter {p.arg} is converted with validate_and_convert before it is stored' if conv else f'parameter {p.arg}: ExpressionOrNumeric stored without validate_and_convert (a Python number would reach the engine as a non-node)',
                        detail=p.arg)
    missing_tags = set(EXPECTED) - seen_tags
    if missing_tags:
        raise AnalysisError(f'C01.R3: no class found for the engine tags {sorted(missing_tags)}')
    ctx.floor('C01.R3', 40)
    ctx.floor('C01.R2', 30)

    # structural side conditions of two templates
    cs = prog.find_class('ConditionalTermTuple', 'expressions')
    ok = [x[0] for x in cs.fields] == ['condition', 'term']
    ctx.add('C01.R3', 'ConditionalTermTuple.fields', ok, cs, 'fields are (condition, term): the record unpacks them positionally' if ok else f'field order is {[x[0] for x in cs.fields]}', str([x[0] for x in cs.fields]))
    lt = prog.find_class('LinearTermTuple', 'expressions')
    ok = [x[0] for x in lt.fields] == ['beta', 'x']
    ctx.add('C01.R3', 'LinearTermTuple.fields', ok, lt, 'fields are (beta, x)' if ok else f'field order is {[x[0] for x in lt.fields]}', str([x[0] for x in lt.fields]))
    blu = prog.find_class('bioLinearUtility', 'expressions')
    ar = AttrRoles(prog, blu)
    init = blu.methods['__init__']
    lot = [unparse(inline_locals(init.node, n.value)) for n in walk_no_nested(init.node) if isinstance(n, ast.Assign) and unparse(n.targets[0]) == 'self.listOfTerms']
    ok = ar.roles.get('betas') == {'@0#0'} and ar.roles.get('variables') == {'@0#1'} and lot == ['list(zip(self.betas, self.variables))'] and ar.children_template() == '*@0#0 + @0#1'
    ctx.add('C01.R2', 'bioLinearUtility.__init__:terms', ok, init, 'terms are (beta, variable) pairs in the order given; children = betas + variables' if ok else f'term plumbing of bioLinearUtility changed: betas={ar.roles.get("betas")}, variables={ar.roles.get("variables")}, listOfTerms={lot}, children={ar.children_template()}', str(lot))
    # LogLogit: av built for the keys of util when None; av keyed as given
    ll = prog.find_class('LogLogit', 'expressions')
    init = ll.methods['__init__']
    ok = has(init.node, """
if av is None:
    self.av = {_K: Numeric(1) for _K, _V in util.items()}
else:
    self.av = {_A: validate_and_convert(_E) for _A, _E in av.items()}
""") or has(init.node, """
if av is None:
    self.av = {_K: Numeric(1) for _K in util}
else:
    self.av = {_A: validate_and_convert(_E) for _A, _E in av.items()}
""")
    ctx.add('C01.R2', 'LogLogit.__init__:av', ok, init, 'av=None means availability 1 for every key of util; otherwise av is kept key by key' if ok else 'availability plumbing of LogLogit changed', 'av')
    arl = AttrRoles(prog, ll)
    # the values of a dictionary spliced in are the loop over its items that appends each value
    lct = re.sub(r'\*((?:@\d+|self\.\w+))\.values\(\)(?= ;|$)', lambda m_: f'⟦for $0,$1 in {m_.group(1)}.items(): $1⟧', arl.children_template())
    okc = lct == '@2 ; ⟦for $0,$1 in @0.items(): $1⟧ ; ⟦for $0,$1 in self.av.items(): $1⟧'
    ctx.add('C01.R2', 'LogLogit.__init__:children', okc, init, 'children = choice, utilities, availabilities' if okc else f'children of LogLogit: {arl.children_template()}', arl.children_template())
    fc = prog.find_class('_bioLogLogitFullChoiceSet', 'expressions')
    fi = fc.methods['__init__']
    sup = [n for n in walk_no_nested(fi.node) if isinstance(n, ast.Call) and unparse(n.func) == 'super().__init__']
    ok = len(sup) == 1 and sorted(f'{k.arg}={unparse(k.value)}' for k in sup[0].keywords) == ['av=None', 'choice=choice', 'util=util'] and not sup[0].args
    ctx.add('C01.R2', '_bioLogLogitFullChoiceSet.__init__', ok, fi, 'forwards util and choice, av=None' if ok else 'constructor forwarding changed', unparse(sup[0]) if sup else '')

    evaluator_rules(ctx)
    ctx.floor('C01.R6', 28)

    # ---- R7 literals
    vc = prog.func('expressions.convert', 'validate_and_convert')
    pn = vc.positional_params()[0]
    problems = []
    bvc = body_is(vc.body, f"""
if isinstance({pn}, bool):
    return __B1 if {pn} else __B0
if is_numeric({pn}):
    return __N
if not isinstance({pn}, Expression):
    ___
    raise __EXC
return __X
""") or body_is(vc.body, f"""
if isinstance({pn}, bool):
    return __B
if is_numeric({pn}):
    return __N
if not isinstance({pn}, Expression):
    ___
    raise __EXC
return __X
""") or body_is(vc.body, f"""
if is_numeric({pn}):
    return __N
if not isinstance({pn}, Expression):
    ___
    raise __EXC
return __X
""")
    if bvc is None:
        ctx.shape('C01.R7', 'validate_and_convert', False, vc, '', 'bool -> Numeric(1/0); numeric -> Numeric(value); not an Expression -> raise; otherwise the expression itself')
    else:
        def hole(k):
            return unparse(bvc[k][1]) if k in bvc else None

        if '__B1' in bvc and (hole('__B1'), hole('__B0')) != ('Numeric(1)', 'Numeric(0)'):
            problems.append(f'bool branch: {hole("__B1")} if {pn} else {hole("__B0")}')
        if '__B' in bvc and hole('__B') not in (f'Numeric({pn})', f'Numeric(float({pn}))', f'Numeric(int({pn}))'):
            problems.append(f'bool branch: {hole("__B")}')
        if hole('__N') not in (f'Numeric({pn})', f'Numeric(float({pn}))'):
            problems.append(f'numeric branch: {hole("__N")}')
        if hole('__X') != pn:
            problems.append(f'an Expression is not returned unchanged: {hole("__X")}')
    if bvc is not None:
        ctx.add('C01.R7', 'validate_and_convert', not problems, vc, 'numbers become Numeric(value), booleans 1/0, expressions pass unchanged, anything else is refused' if not problems else '; '.join(problems), '; '.join(problems))
    num = prog.find_class('Numeric', 'expressions')
    ni = num.methods['__init__']
    okn = any(unparse(s) in ('self.value = float(value)',) for s in ni.body)
    ctx.add('C01.R7', 'Numeric.__init__', okn, ni, 'Numeric stores float(value)' if okn else 'Numeric does not store float(value)', ' ; '.join(unparse(s) for s in ni.body))
    isn = prog.func('expressions.numeric_tools', 'is_numeric')
    okn = unparse(isn.body[-1]) == 'return isinstance(obj, (int, float, bool))'
    ctx.add('C01.R7', 'is_numeric', okn, isn, 'is_numeric accepts int, float, bool' if okn else f'is_numeric: {unparse(isn.body[-1])}', unparse(isn.body[-1]))

    # ---- R8
    n = ecc(ctx, 'C01.R8', only_class='pyEvaluateOneExpression')
    ctx.floor('C01.R8', 9)
    # ---- R9: the value vectors handed to the engine follow the id tables
    ord_pack(ctx, 'C01.R9')
    ctx.floor('C01.R9', 17)
    # sharing: get_id is the identity of the object
    gid = E.methods['get_id']
    ok = unparse(gid.body[-1]) == 'return id(self)'
    ctx.add('C01.R3', 'Expression.get_id', ok, gid, 'node id is the identity of the object (a shared sub-formula is serialised once and referenced by the same id)' if ok else f'get_id returns {unparse(gid.body[-1])}', unparse(gid.body[-1]))
    overrides = [c.name for c in classes if 'get_id' in c.methods and c is not E and c.name not in ('MultipleExpression',)]
    ctx.add('C01.R3', 'get_id:overrides', not overrides, gid, 'no class but MultipleExpression overrides get_id' if not overrides else f'get_id overridden in {overrides}', str(overrides))


def _children_converted(prog: Program, c: ClassInfo, init: FuncInfo, param: str) -> bool:
    """self.children.append(validate_and_convert(x)) with x derived from ``param``"""
    local_src: dict[str, set[str]] = {}
    for n in ast.walk(init.node):
        if isinstance(n, ast.Assign) and isinstance(n.targets[0], ast.Name):
            local_src.setdefault(n.targets[0].id, set()).update(x.id for x in ast.walk(n.value) if isinstance(x, ast.Name))
    from ..normal import as_loop

    loops = [n for n in ast.walk(init.node) if isinstance(n, ast.For)]
    for st in ast.walk(init.node):
        if isinstance(st, ast.stmt) and 'self.children' in unparse(st)[:40]:
            lp = as_loop(st)
            if lp:
                loops += [x for y in lp for x in ast.walk(y) if isinstance(x, ast.For)]
    for n in loops:
        if isinstance(n, ast.For):
            srcs = {x.id for x in ast.walk(n.iter) if isinstance(x, ast.Name)}
            srcs |= set().union(*(local_src.get(s, set()) for s in srcs)) if srcs else set()
            if param in srcs:
                lv = {x.id for x in ast.walk(n.target) if isinstance(x, ast.Name)}
                for b in ast.walk(n):
                    if isinstance(b, ast.Call) and call_name(b) == 'validate_and_convert' and b.args and isinstance(b.args[0], ast.Name) and b.args[0].id in lv:
                        return True
    return False


# --------------------------------------------------------------------------
_X = 'src/biogeme/expressions/'
MUTANTS = [
    dict(name='__rtruediv__ builds Divide(self, other)', rule='C01.R1', file=_X + 'base_expressions.py',
         old='            error_msg = f"Invalid expression during division by {self}: [{other}]"\n            raise BiogemeError(error_msg)\n        from .binary_expressions import Divide\n\n        return Divide(other, self)\n\n    def __neg__',
         new='            error_msg = f"Invalid expression during division by {self}: [{other}]"\n            raise BiogemeError(error_msg)\n        from .binary_expressions import Divide\n\n        return Divide(self, other)\n\n    def __neg__'),
    dict(name='__rsub__ builds Minus(self, other)', rule='C01.R1', file=_X + 'base_expressions.py',
         old='        from .binary_expressions import Minus\n\n        return Minus(other, self)', new='        from .binary_expressions import Minus\n\n        return Minus(self, other)'),
    dict(name='__ge__ builds Greater', rule='C01.R1', file=_X + 'base_expressions.py',
         old='        from .comparison_expressions import GreaterOrEqual\n\n        return GreaterOrEqual(self, other)', new='        from .comparison_expressions import Greater\n\n        return Greater(self, other)'),
    dict(name='__rpow__ builds Power(self, other)', rule='C01.R1', file=_X + 'base_expressions.py',
         old='        from .binary_expressions import Power\n\n        return Power(other, self)', new='        from .binary_expressions import Power\n\n        return Power(self, other)'),
    dict(name='BinaryOperator appends right before left', rule='C01.R3', file=_X + 'binary_expressions.py',
         old='        self.children.append(self.left)\n        self.children.append(self.right)', new='        self.children.append(self.right)\n        self.children.append(self.left)'),
    dict(name='BinaryOperator stores right without conversion', rule='C01.R2', file=_X + 'binary_expressions.py',
         old='        self.right = validate_and_convert(right)', new='        self.right = right'),
    dict(name='LogLogit record drops the availability id', rule='C01.R3', file=_X + 'logit_expressions.py',
         old="signature += f',{i},{e.get_id()},{self.av[i].get_id()}'", new="signature += f',{i},{e.get_id()},{e.get_id()}'"),
    dict(name='LogLogit record counts availabilities of another dict', rule='C01.R3', file=_X + 'logit_expressions.py',
         old="signature += f'({len(self.util)})'", new="signature += f'({len(self.children)})'"),
    dict(name='bioLinearUtility record swaps the two index fields', rule='C01.R3', file=_X + 'nary_expressions.py',
         old="f',{b.get_id()},{b.elementaryIndex},{b.name},'\n                f'{v.get_id()},{v.elementaryIndex},{v.name}'",
         new="f',{b.get_id()},{v.elementaryIndex},{b.name},'\n                f'{v.get_id()},{b.elementaryIndex},{v.name}'"),
    dict(name='Elem record emits the key after the entries', rule='C01.R3', file=_X + 'nary_expressions.py',
         old="        signature += f',{self.keyExpression.get_id()}'\n        for i, e in self.dict_of_expressions.items():\n            signature += f',{i},{e.get_id()}'",
         new="        for i, e in self.dict_of_expressions.items():\n            signature += f',{i},{e.get_id()}'\n        signature += f',{self.keyExpression.get_id()}'"),
    dict(name='ConditionalSum record swaps condition and term', rule='C01.R3', file=_X + 'nary_expressions.py',
         old="signature += f',{key.get_id()},{expression.get_id()}'", new="signature += f',{expression.get_id()},{key.get_id()}'"),
    dict(name='ConditionalTermTuple fields swapped', rule='C01.R3', file=_X + 'nary_expressions.py',
         old='    condition: ExpressionOrNumeric\n    term: ExpressionOrNumeric', new='    term: ExpressionOrNumeric\n    condition: ExpressionOrNumeric'),
    dict(name='PowerConstant serialises the integer exponent', rule='C01.R3', file=_X + 'unary_expressions.py',
         old="        signature += f',{self.exponent}'", new="        signature += f',{self.integer_exponent}'"),
    dict(name='Integrate looks its variable up in the table of all elements', rule='C01.R3', file=_X + 'unary_expressions.py',
         old='        random_variable_index = self.id_manager.random_variables.indices[', new='        random_variable_index = self.id_manager.elementary_expressions.indices['),
    dict(name='Derive child signature emitted after the own record', rule='C01.R4', file=_X + 'unary_expressions.py',
         old="        list_of_signatures = []\n        list_of_signatures += self.child.get_signature()\n        my_signature = f'<{self.get_class_name()}>'\n        my_signature += f'{{{self.get_id()}}}'\n        my_signature += f',{self.child.get_id()}'\n        my_signature += f',{elementary_index}'\n        list_of_signatures += [my_signature.encode()]\n        return list_of_signatures",
         new="        list_of_signatures = []\n        my_signature = f'<{self.get_class_name()}>'\n        my_signature += f'{{{self.get_id()}}}'\n        my_signature += f',{self.child.get_id()}'\n        my_signature += f',{elementary_index}'\n        list_of_signatures += [my_signature.encode()]\n        list_of_signatures += self.child.get_signature()\n        return list_of_signatures"),
    dict(name='Elem does not emit the signature of the key', rule='C01.R4', file=_X + 'nary_expressions.py',
         old='        list_of_signatures += self.keyExpression.get_signature()\n', new=''),
    dict(name='Variable reads variableId from the table of all elements', rule='C01.R5', file=_X + 'elementary_expressions.py',
         old='        self.variableId = self.id_manager.variables.indices[self.name]', new='        self.variableId = self.id_manager.elementary_expressions.indices[self.name]'),
    dict(name='Variable record swaps the two ids', rule='C01.R3', file=_X + 'elementary_expressions.py',
         old='signature += f\'"{self.name}",{self.elementaryIndex},{self.variableId}\'', new='signature += f\'"{self.name}",{self.variableId},{self.elementaryIndex}\''),
    dict(name='Beta free/fixed test inverted in set_id_manager', rule='C01.R5', file=_X + 'beta_parameters.py',
         old='        if self.status != 0:\n            self.betaId = self.id_manager.fixed_betas.indices[self.name]', new='        if self.status == 0:\n            self.betaId = self.id_manager.fixed_betas.indices[self.name]'),
    dict(name='bioLinearUtility treats status 1 only as fixed', rule='C01.R5', file=_X + 'nary_expressions.py',
         old='return {x.name: x for x in self.betas if x.status != 0}', new='return {x.name: x for x in self.betas if x.status == 1}'),
    dict(name='IdManager fills random variables from DRAWS', rule='C01.R5', file=_X + 'idmanager.py',
         old='                the_type=TypeOfElementaryExpression.RANDOM_VARIABLE', new='                the_type=TypeOfElementaryExpression.DRAWS'),
    dict(name='indices enumerate unsorted names', rule='C01.R5', file=_X + 'idmanager.py', old='    names = sorted(dict_of_elements)', new='    names = list(dict_of_elements)'),
    dict(name='bioMin tests >=', rule='C01.R6', file=_X + 'binary_expressions.py',
         old='        if self.left.get_value() <= self.right.get_value():\n            return self.left.get_value()', new='        if self.left.get_value() >= self.right.get_value():\n            return self.left.get_value()'),
    dict(name='LessOrEqual strict', rule='C01.R6', file=_X + 'comparison_expressions.py',
         old='r = 1 if self.left.get_value() <= self.right.get_value() else 0', new='r = 1 if self.left.get_value() < self.right.get_value() else 0'),
    dict(name='Or returns 0 when only right is non-zero', rule='C01.R6', file=_X + 'binary_expressions.py',
         old='        if self.right.get_value() != 0.0:\n            return 1.0\n        return 0.0', new='        if self.right.get_value() != 0.0:\n            return 0.0\n        return 0.0'),
    dict(name='Minus evaluates right - left', rule='C01.R6', file=_X + 'binary_expressions.py',
         old='return self.left.get_value() - self.right.get_value()', new='return self.right.get_value() - self.left.get_value()'),
    dict(name='ConditionalSum adds when the condition is zero', rule='C01.R6', file=_X + 'nary_expressions.py', old='            if condition != 0:', new='            if condition == 0:'),
    dict(name='pre-fix: LogLogit returns +inf for unavailable chosen', rule='C01.R6', file=_X + 'logit_expressions.py', old='            return -np.inf', new='            return -np.log(0)'),
    dict(name='LogLogit denominator ignores availability', rule='C01.R6', file=_X + 'logit_expressions.py',
         old='            if self.av[i].get_value() != 0.0:\n                denom += np.exp(V.get_value() - v_chosen)', new='            if self.av[choice].get_value() != 0.0:\n                denom += np.exp(V.get_value() - v_chosen)'),
    dict(name='cos evaluates sin', rule='C01.R6', file=_X + 'unary_expressions.py',
         old='        return np.cos(self.child.get_value())', new='        return np.sin(self.child.get_value())'),
    dict(name='boolean literal True converted to Numeric(0)', rule='C01.R7', file=_X + 'convert.py',
         old='return Numeric(1) if expression else Numeric(0)', new='return Numeric(0) if expression else Numeric(1)'),
    dict(name='Numeric stores int(value)', rule='C01.R7', file=_X + 'numeric_expressions.py', old='self.value = float(value)', new='self.value = int(value)'),
    dict(name='calculator hands the fixed values as free betas', rule='C01.R8', file=_X + 'calculator.py',
         old='the_cpp.setFreeBetas(the_expression.id_manager.free_betas_values)', new='the_cpp.setFreeBetas(the_expression.id_manager.fixed_betas_values)'),
    dict(name='get_id returns the id of the class', rule='C01.R3', file=_X + 'base_expressions.py', old='        return id(self)', new='        return id(type(self))'),
    dict(name='new expression class without engine tag', rule='C01.R3', file=_X + 'unary_expressions.py',
         old='class BelongsTo(UnaryOperator):', new='class tan(UnaryOperator):\n    def __init__(self, child):\n        UnaryOperator.__init__(self, child)\n\n\nclass BelongsTo(UnaryOperator):'),
]
NEUTRAL = [
    dict(name='BinaryOperator builds children in one statement order-preserving', file=_X + 'unary_expressions.py',
         old='        self.child = validate_and_convert(child)\n        self.children.append(self.child)', new='        converted = validate_and_convert(child)\n        self.child = converted\n        self.children.append(converted)'),
    dict(name='attribute util renamed to utilities in LogLogit', file=_X + 'logit_expressions.py', old='self.util', new='self.utilities', edits=None),
    dict(name='bioMin written with a conditional expression', file=_X + 'binary_expressions.py',
         old='        if self.left.get_value() <= self.right.get_value():\n            return self.left.get_value()\n\n        return self.right.get_value()',
         new='        return self.left.get_value() if self.left.get_value() < self.right.get_value() else self.right.get_value()'),
    dict(name='Equal written with if/return', file=_X + 'comparison_expressions.py',
         old='        r = 1 if self.left.get_value() == self.right.get_value() else 0\n        return r',
         new='        if self.left.get_value() != self.right.get_value():\n            return 0\n        return 1'),
    dict(name='validate_and_convert tests numeric before bool', file=_X + 'convert.py',
         old='    if isinstance(expression, bool):\n        return Numeric(1) if expression else Numeric(0)\n    if is_numeric(expression):\n        return Numeric(expression)',
         new='    if is_numeric(expression):\n        return Numeric(expression)'),
    dict(name='docstring edit in base_expressions', file=_X + 'base_expressions.py', old='"""This is the general arithmetic expression in biogeme.', new='"""General arithmetic expression of biogeme.'),
]
NEUTRAL[1] = dict(name='attribute util renamed to utilities in LogLogit', replace_all=True, file=_X + 'logit_expressions.py', old='self.util', new='self.utilities')
