"""C19 - sampled choice sets follow the protocol (structural clauses)."""

from __future__ import annotations

import ast
import re

from ..cfg import cfg_of
from ..core import named_args, seq, AnalysisError, call_name, const_value, inline_locals, unparse, walk_no_nested
from ..pattern import _parse, body_is, find, find_expr, has, has_expr, m_node
from ..report import Ctx

SA = 'sampling_of_alternatives.sampling_of_alternatives'
CS = 'sampling_of_alternatives.choice_set_generation'
GM = 'sampling_of_alternatives.generate_model'
SC = 'sampling_of_alternatives.sampling_context'


#: obligations whose failure contradicts the property (rule, construct pattern, why); every other failure is 'not recognised'
POSITIVE: list[tuple[str, str, str]] = [
    ('C19.R3', r'^GenerateModel\.', 'a column name built for an index over one sample carries (or lacks) the prefix of the other sample'),
]


#: spellings of the prefix of the second sample inside GenerateModel, and of the column names of the generated data
_PREFIX_EXPRS = ('self.mev_prefix', 'self.context.mev_prefix', 'MEV_PREFIX')
_COLUMN_EXPRS = ('LOG_PROBA_COL', 'MEV_WEIGHT', 'CNL_PREFIX', 'self.context.id_column')


def _copies(cfg, expr: ast.expr, at, stop: str, depth: int = 6) -> list[tuple[ast.expr, int | None]]:
    """(expression, cfg node where it is evaluated) pairs the value of ``expr`` evaluated at node ``at`` may stand for, following
    plain copies of locals backwards through the reaching definitions; a read of the variable ``stop`` is not followed further"""
    if depth == 0 or at is None or not isinstance(expr, ast.Name) or expr.id == stop:
        return [(expr, at)]
    ds = cfg.reaching(at, expr.id)
    if not ds:
        return [(expr, at)]
    out: list[tuple[ast.expr, int | None]] = []
    for d in ds:
        if d.kind == 'assign' and d.value is not None:
            out += _copies(cfg, d.value, d.node, stop, depth - 1)
        else:
            out.append((expr, at))
    return out


def _copies_iter(cfg, expr: ast.expr, at, stop: str, in_test: set, in_loop: set, same: bool = False, depth: int = 6) -> list:
    """_copies with, for each leaf, whether it is evaluated in the same iteration of the stratum loop as a point under the test
    `chosen in stratum.subset`: the chain passed through such a point and every copy followed since then is made in the loop
    body on every passage before its use (its statement dominates the use and is the only definition reaching it)"""
    same = same or at in in_test
    if depth == 0 or at is None or not isinstance(expr, ast.Name) or expr.id == stop:
        return [(expr, at, same)]
    ds = cfg.reaching(at, expr.id)
    if not ds:
        return [(expr, at, same)]
    out = []
    for d in ds:
        if d.kind == 'assign' and d.value is not None:
            fresh = same and len(ds) == 1 and at in in_loop and d.node in in_loop and d.node != at and cfg.dominates(d.node, at)
            out += _copies_iter(cfg, d.value, d.node, stop, in_test, in_loop, fresh, depth - 1)
        else:
            out.append((expr, at, same))
    return out


def _flag_guarded(fn: ast.AST, loop: ast.For, test_if: ast.If) -> list[list]:
    """blocks of the loop body executed only when `test_if.test` held in the same iteration, by way of a flag: a local whose only
    assignments are `flag = False` as a statement of the loop body itself before ``test_if`` (every iteration starts with it) and
    `flag = True` inside the body of ``test_if``; the blocks are the bodies of `if flag:` (or the else of `if not flag:`) that follow ``test_if`` in the loop"""
    out = []
    under = {id(x) for s in test_if.body for x in ast.walk(s)}
    resets = [s for s in loop.body if isinstance(s, ast.Assign) and len(s.targets) == 1 and isinstance(s.targets[0], ast.Name)
              and isinstance(s.value, ast.Constant) and s.value.value is False and seq(s) < seq(test_if)]
    for r in resets:
        flag = r.targets[0].id
        a = fn.args
        if flag in {x.arg for x in a.posonlyargs + a.args + a.kwonlyargs} or any(isinstance(n, (ast.Global, ast.Nonlocal)) and flag in n.names for n in ast.walk(fn)):
            continue
        stores = [n for n in ast.walk(fn) if isinstance(n, ast.Name) and n.id == flag and not isinstance(n.ctx, ast.Load)]
        sets = [n for n in ast.walk(fn) if isinstance(n, ast.Assign) and len(n.targets) == 1 and isinstance(n.targets[0], ast.Name) and n.targets[0].id == flag and n is not r]
        if len(stores) != len(sets) + 1 or not sets or not all(id(n) in under and isinstance(n.value, ast.Constant) and n.value.value is True for n in sets):
            continue
        for n in ast.walk(loop):
            if isinstance(n, ast.If) and n is not test_if and id(n) not in under and seq(n) > seq(test_if):
                t = n.test
                if isinstance(t, ast.Name) and t.id == flag:
                    out.append(n.body)
                elif isinstance(t, ast.UnaryOp) and isinstance(t.op, ast.Not) and isinstance(t.operand, ast.Name) and t.operand.id == flag and n.orelse:
                    out.append(n.orelse)
    return out


def _under_not_none(fn: ast.AST, w: ast.Assign) -> bool:
    """the assignment ``w`` of a local stands in the body of `if <that local> is not None`"""
    if not isinstance(w.value, ast.Name):
        return False
    v = w.value.id
    for n in ast.walk(fn):
        if isinstance(n, ast.If) and any(x is w for s in n.body for x in ast.walk(s)):
            t = n.test
            if isinstance(t, ast.Compare) and len(t.ops) == 1 and isinstance(t.ops[0], (ast.IsNot, ast.NotEq)):
                for p_, q_ in ((t.left, t.comparators[0]), (t.comparators[0], t.left)):
                    if isinstance(p_, ast.Name) and p_.id == v and isinstance(q_, ast.Constant) and q_.value is None:
                        return True
    return False


_DV = """
for _NV in self.combined_variables:
    for _I in range(self.total_sample_size):
        _E = copy.deepcopy(_NV.formula)
        _A = self.get_attributes_from_expression(_E)
        _E.rename_elementary(_A, suffix=f'_{_I}')
        database.define_variable(f'{_NV.name}_{_I}', _E)
        ___
    if self.second_partition is not None:
        for _J in range(self.second_sample_size):
            _E2 = copy.deepcopy(_NV.formula)
            _A2 = self.get_attributes_from_expression(_E2)
            _E2.rename_elementary(_A2, prefix=MEV_PREFIX, suffix=f'_{_J}')
            database.define_variable(f'{MEV_PREFIX}{_NV.name}_{_J}', _E2)
""".replace('_E2', '_E').replace('_A2', '_A').replace('_J', '_I')


def _inlined(fn: ast.AST) -> ast.AST:
    """copy of the function in which every single-definition local is replaced by its defining expression (core.inline_locals) and
    the definitions that are no longer read and only name a path / a constant are dropped"""
    t = inline_locals(fn, fn)
    loaded = {n.id for n in ast.walk(t) if isinstance(n, ast.Name) and isinstance(n.ctx, ast.Load)}

    def path(e):
        while isinstance(e, ast.Attribute):
            e = e.value
        return isinstance(e, (ast.Name, ast.Constant))

    class Drop(ast.NodeTransformer):
        def visit_Assign(self, st):
            if len(st.targets) == 1 and isinstance(st.targets[0], ast.Name) and st.targets[0].id not in loaded and path(st.value):
                return None
            return st

    return ast.fix_missing_locations(Drop().visit(t))


def _default_of(fn: ast.FunctionDef, name: str):
    a = fn.args
    pos = a.posonlyargs + a.args
    for p_, d in zip(pos[len(pos) - len(a.defaults):], a.defaults):
        if p_.arg == name:
            return d
    for p_, d in zip(a.kwonlyargs, a.kw_defaults):
        if p_.arg == name:
            return d
    return None


def _bind(prog, call: ast.Call) -> dict[str, ast.expr] | None:
    """parameter name -> argument of a method call, keyword or positional alike, when every definition of that method name in the
    package lists its parameters in the same order; None when the arguments cannot all be named (the rule then has no opinion)"""
    if not isinstance(call.func, ast.Attribute) or any(k.arg is None for k in call.keywords) or any(isinstance(a, ast.Starred) for a in call.args):
        return None
    out = {k.arg: k.value for k in call.keywords}
    if not call.args:
        return out
    orders = {tuple(g.positional_params()[1:]) for g in prog.methods_named(call.func.attr) if 'staticmethod' not in g.decorators()}
    if len(orders) != 1:
        return None
    order = next(iter(orders))
    if len(call.args) > len(order) or any(p_ in out for p_ in order[:len(call.args)]):
        return None
    out.update(zip(order, call.args))
    return out


def _without_default_args(prog, tree: ast.AST) -> ast.AST:
    """the tree (already a private copy) with the method calls whose arguments can all be named (_bind) written one way: first
    parameter positional, the others by keyword in the order of the signature, without the arguments that spell out the literal
    default every definition of that method name in the package has: f(x, None, s) is f(x, prefix=None, suffix=s) is f(x, suffix=s)"""

    class T(ast.NodeTransformer):
        def visit_Call(self, c):
            self.generic_visit(c)
            from .. import normal

            if isinstance(c.func, ast.Attribute) and (normal.METHOD_SIGS.get(c.func.attr) or normal.SIGS.get(c.func.attr)):
                return c  # the normal form already writes the calls of this method one way
            bound = _bind(prog, c)
            if bound is None:
                return c
            cands = [g for g in prog.methods_named(c.func.attr)]
            orders = {tuple(g.positional_params()[1:]) for g in cands if 'staticmethod' not in g.decorators()}
            for name, v in list(bound.items()):
                ds = [_default_of(g.node, name) for g in cands]
                if ds and isinstance(v, ast.Constant) and all(isinstance(d, ast.Constant) and type(d.value) is type(v.value) and d.value == v.value for d in ds):
                    del bound[name]
            if len(orders) == 1:
                order = next(iter(orders))
                names = sorted(bound, key=lambda n_: order.index(n_) if n_ in order else len(order))
                first = order[0] if order and order[0] in bound and c.args else None  # stays positional when it was written so
                c.args = [bound[first]] if first else []
                c.keywords = [ast.keyword(arg=n_, value=bound[n_]) for n_ in names if n_ != first]
            else:
                c.keywords = [k for k in c.keywords if k.arg in bound]
            return c

    return ast.fix_missing_locations(T().visit(tree))


def _own_paths(fn: ast.FunctionDef) -> dict[str, ast.expr]:
    """attribute of self -> the path on a parameter it is given once, unconditionally, in this function (`self.context = context`,
    `self.total_sample_size = context.total_sample_size`): inside the function the two spellings denote the same object"""
    a = fn.args
    pos = a.posonlyargs + a.args
    if not pos:
        return {}
    me = pos[0].arg
    params = {x.arg for x in pos + a.kwonlyargs} - {me}
    rebound = {n.id for n in ast.walk(fn) if isinstance(n, ast.Name) and isinstance(n.ctx, (ast.Store, ast.Del))}
    stores: dict[str, int] = {}
    for n in ast.walk(fn):
        if isinstance(n, ast.Attribute) and isinstance(n.ctx, (ast.Store, ast.Del)) and isinstance(n.value, ast.Name) and n.value.id == me:
            stores[n.attr] = stores.get(n.attr, 0) + 1
    env: dict[str, ast.expr] = {}
    for st in fn.body:
        if isinstance(st, ast.Assign) and len(st.targets) == 1 and isinstance(t := st.targets[0], ast.Attribute) and isinstance(t.value, ast.Name) and t.value.id == me and stores.get(t.attr) == 1:
            v = _subst_own(st.value, env, me)
            root = v
            while isinstance(root, ast.Attribute):
                root = root.value
            if isinstance(root, ast.Name) and root.id in params and root.id not in rebound:
                env[t.attr] = v
    env['__self__'] = ast.Name(id=me, ctx=ast.Load())
    return env


def _subst_own(tree: ast.AST, env: dict[str, ast.expr], me: str | None = None) -> ast.AST:
    """copy of the tree in which every read of self.<attr> known to _own_paths is replaced by the parameter path"""
    import copy

    me = me or (env['__self__'].id if '__self__' in env else 'self')

    class T(ast.NodeTransformer):
        def visit_Attribute(self, n):
            if isinstance(n.ctx, ast.Load) and isinstance(n.value, ast.Name) and n.value.id == me and n.attr in env:
                return copy.deepcopy(env[n.attr])
            self.generic_visit(n)
            return n

    return ast.fix_missing_locations(T().visit(copy.deepcopy(tree)))


def _known(prog, module, fn: ast.AST, expr: ast.expr):
    """('known', value) when the expression is a literal, or a name that stands for one through single-definition locals of the
    function and the constants of the module (own or imported); None when the rule cannot tell the value"""
    e = inline_locals(fn, expr)
    if isinstance(e, ast.Constant):
        return ('known', e.value)
    if isinstance(e, ast.Name):
        a = fn.args
        if e.id in {x.arg for x in a.posonlyargs + a.args + a.kwonlyargs} or any(isinstance(n, ast.Name) and n.id == e.id and isinstance(n.ctx, ast.Store) for n in ast.walk(fn)):
            return None  # a parameter / a local with several definitions
        r = prog.resolve_name(module, e.id)
        if r is not None and r[0] == 'value':
            try:
                return ('known', const_value(r[2]))
            except ValueError:
                return None
    return None


def run(ctx: Ctx) -> None:
    ctx.positive_table = list(POSITIVE)
    prog = ctx.prog
    ctx.rule('C19.R1', 'protocol shape: in every stratum the correction ln(k/n) is defined from the requested sample size and the stratum size before the chosen alternative '
             'is set aside, the chosen alternative gets the correction of its own stratum (assignment inside the stratum loop, under `chosen in stratum`), the other draws of '
             'the stratum get the same correction, the chosen id is removed before sampling, sampling is without replacement from the ids of the stratum, the chosen row '
             'comes first; the second sample is weighted n/k per stratum, without replacement')
    ctx.rule('C19.R2', 'column agreement: the names written by process_row (<column>_<row>, MEV prefix for the second sample) are the names the model generator and '
             'define_new_variables read')
    ctx.rule('C19.R3', 'sample sorts: an index ranging over the main sample never builds a column name with the MEV prefix; an index over the second sample always does')
    ctx.rule('C19.R4', 'the strata are (segment, size) pairs of the matching partition and size list; k > n, k = 0, empty strata and unknown ids are refused with BiogemeError')
    ctx.not_decided += ['equality with the full model under full sampling (engine)']
    S = prog.cls(SA, 'SamplingOfAlternatives')
    f = S.methods['sample_alternatives']
    chb = find(f.node, '_CH = self.alternatives[self.alternatives[self.id_column] == chosen].copy()') or find(f.node, '_CH = self.alternatives[self.alternatives[self.id_column] == chosen]')
    ctx.need(chb is not None, 'sample_alternatives selects the row of the chosen alternative')
    CH = chb['_CH']
    loops = [n for n in f.body if isinstance(n, ast.For) and unparse(n.iter) == 'self.partition']
    ctx.need(len(loops) == 1, 'sample_alternatives loops over the strata')
    lp = loops[0]
    st = unparse(lp.target)
    body = lp.body
    asg = {unparse(s.targets[0]): s for s in body if isinstance(s, ast.Assign)}
    lpdef = next((s for s in body if isinstance(s, ast.Assign) and isinstance(s.value, ast.BinOp) and 'np.log' in unparse(s.value)), None)
    ctx.need(lpdef is not None, 'the correction term is computed in the stratum loop')
    lpv = unparse(lpdef.targets[0])
    m = re.fullmatch(r'np\.log\((\w+)\) - np\.log\((\w+)\)', unparse(lpdef.value))
    ok = m is not None
    if ok:
        kdef, ndef = asg.get(m.group(1)), asg.get(m.group(2))
        ok = kdef is not None and ndef is not None and unparse(kdef.value) == f'{st}.sample_size' and unparse(ndef.value) == f'len({st}.subset)' and seq(kdef) < seq(lpdef) and seq(ndef) < seq(lpdef)
    ctx.add('C19.R1', 'sample_alternatives:correction', ok, (f.file, lpdef.lineno), f'{lpv} = ln(requested size) - ln(stratum size)' if ok else f'correction term: {unparse(lpdef.value)} is not ln(stratum.sample_size) - ln(len(stratum.subset))', unparse(lpdef.value))
    kname = m.group(1) if m else 'sample_size'
    chosen_if = [s for s in body if isinstance(s, ast.If) and unparse(inline_locals(f.node, s.test)) == f'chosen in {st}.subset']
    # which correction the chosen alternative receives: every value that may be written into its LOG_PROBA_COL is followed back
    # through plain copies of locals (reaching definitions) to the place where the correction variable of the loop is READ.
    # Read under `chosen in stratum.subset`: the correction of its own stratum (wherever the write itself stands).  Read
    # outside that test (after it, after the loop): the correction of whichever stratum was treated last - the contradiction.
    writes = [n for n in ast.walk(f.node) if isinstance(n, ast.Assign) and unparse(n.targets[0]) == f'{CH}[LOG_PROBA_COL]']
    site_ok, last_read = None, None
    if len(chosen_if) == 1 and writes:
        cfg = cfg_of(f.node)
        in_test = {cfg.node_of(x) for s in chosen_if[0].body for x in ast.walk(s)} - {None}
        # statements of the same iteration guarded by a boolean flag that is reset at the top of the iteration and set only under the test
        # stand under the test as well
        in_test |= {cfg.node_of(x) for blk in _flag_guarded(f.node, lp, chosen_if[0]) for s in blk for x in ast.walk(s)} - {None}
        lp_node = cfg.node_of(lpdef)
        in_loop = {cfg.node_of(x) for s in lp.body for x in ast.walk(s)} - {None}
        leaves = [(w, leaf, at, same) for w in writes for leaf, at, same in _copies_iter(cfg, w.value, cfg.node_of(w), lpv, in_test, in_loop)]
        kinds = []
        for w, leaf, at, same in leaves:
            if isinstance(leaf, ast.Name) and leaf.id == lpv and at is not None:
                if at in in_test and {d.node for d in cfg.reaching(at, lpv)} == {lp_node}:
                    kinds.append('own')
                elif same and at in in_loop and {d.node for d in cfg.reaching(at, lpv)} == {lp_node} and cfg.dominates(lp_node, at):
                    # read outside the test but in the same iteration as a use under the test: a copy taken from the correction of
                    # this stratum on every passage (it dominates that use and is the only definition that reaches it)
                    kinds.append('own')
                elif at in in_loop and cfg.node_of(w) in in_test:
                    kinds.append('?')  # written under the test from a copy taken in the loop on some passages only
                elif at not in in_test and lp_node in {d.node for d in cfg.reaching(at, lpv)}:
                    kinds.append('last')
                    last_read = last_read or w
                else:
                    kinds.append('?')
            elif isinstance(leaf, ast.Constant) and leaf.value is None:
                # the "not found yet" initial value of a carrier: harmless when the write is under `carrier is not None`
                kinds.append('own' if _under_not_none(f.node, w) else '?')
            else:
                kinds.append('?')
        if 'last' in kinds:
            site_ok = False
        elif kinds and all(k == 'own' for k in kinds):
            site_ok = True
    ok = len(chosen_if) == 1
    det = ''
    if ok:
        ci = chosen_if[0]
        bt = [unparse(s) for s in ci.body]
        det = ' ; '.join(bt)
        subset_copy = next((k for k, s in asg.items() if 'deepcopy' in unparse(s.value) or unparse(s.value) in (f'set({st}.subset)', f'{st}.subset.copy()')), None)
        ok = subset_copy is not None and f'{subset_copy}.discard(chosen)' in bt and f'{kname} -= 1' in bt and site_ok is True
        ok = ok and seq(ci) > seq(lpdef)
    ctx.add('C19.R1', 'sample_alternatives:chosen', ok, (f.file, chosen_if[0].lineno if chosen_if else lp.lineno),
            'inside its own stratum the chosen alternative is set aside, one draw less is requested and it receives the correction of that stratum, computed before the decrement' if ok
            else f'handling of the chosen alternative: {det or "no `if chosen in stratum.subset` in the stratum loop"}', det)
    ctx.add('C19.R1', 'sample_alternatives:chosen-correction-site', site_ok, (f.file, (last_read or writes[0]).lineno if writes else f.line), 'the correction of the chosen alternative is the one read where its stratum is known' if site_ok else
            (f'the correction written for the chosen alternative is the value `{lpv}` has outside the test `chosen in stratum.subset`: it receives the value of whichever stratum was treated last' if site_ok is False else 'where the correction of the chosen alternative is assigned is not in the expected form'), 'site', positive=site_ok is False)
    smp = [n for n in ast.walk(lp) if isinstance(n, ast.Call) and call_name(n) == 'sample']
    ok = len(smp) == 1
    if ok:
        kw = named_args(smp[0])
        recv = smp[0].func.value
        sdef = asg.get(unparse(recv)) if isinstance(recv, ast.Name) else None
        frame = sdef.value if sdef is not None else recv  # the rows of the stratum, through a local or in place
        mm = re.fullmatch(r'self\.alternatives\[self\.alternatives\[self\.id_column\]\.isin\((\w+)\)\]', unparse(frame))
        ok = kw.get('n') == kname and kw.get('replace') == 'False' and mm is not None
        if ok:
            ids = mm.group(1)
            ok = ids in asg and (sdef is None or seq(sdef) > seq(chosen_if[0])) and seq(smp[0]) > seq(chosen_if[0])
    ctx.add('C19.R1', 'sample_alternatives:draw', ok, (f.file, smp[0].lineno if smp else lp.lineno), 'k (or k-1) alternatives are drawn without replacement among the ids of the stratum, after the chosen one was set aside' if ok else 'the draw inside a stratum changed', 'draw')
    sw = [s for s in body if isinstance(s, ast.Assign) and unparse(s.targets[0]).endswith('[LOG_PROBA_COL]') and unparse(s.targets[0]) != f'{CH}[LOG_PROBA_COL]']
    ok = len(sw) == 1 and unparse(sw[0].value) == lpv
    ctx.add('C19.R1', 'sample_alternatives:sample-correction', ok, (f.file, sw[0].lineno if sw else lp.lineno), 'the sampled alternatives of the stratum carry the same correction' if ok else 'correction of the sampled alternatives changed', 'sample')
    ok = has(f.node, f"""
_RES = []
___
for _ST in self.partition:
    ___
    _RES.append(_S)
___
_ALL = pd.concat(_RES, ignore_index=True)
___
_ALL = pd.concat([{CH}, _ALL], ignore_index=True)
return _ALL
""") or has(f.node, f"""
_RES = []
___
for _ST in self.partition:
    ___
    _RES.append(_S)
___
_OTHERS = pd.concat(_RES, ignore_index=True)
___
_ALL = pd.concat([{CH}, _OTHERS], ignore_index=True)
return _ALL
""")
    if ok:
        # what is appended is the sample of the stratum
        app = [c for c in ast.walk(lp) if isinstance(c, ast.Call) and call_name(c) == 'append']
        ok = len(app) == 1 and len(smp) == 1 and any(isinstance(a, ast.Assign) and a.value is smp[0] and unparse(a.targets[0]) == unparse(app[0].args[0]) for a in body)
    ctx.add('C19.R1', 'sample_alternatives:order', ok, f, 'the chosen alternative is the first row' if ok else 'the chosen alternative is no longer first', 'order')
    ok = has(f.node, f"""
if len({CH}) < 1:
    ___
    raise BiogemeError(__M1)
if len({CH}) > 1:
    ___
    raise BiogemeError(__M2)
""") or has(f.node, f"""
if len({CH}) != 1:
    ___
    raise BiogemeError(__M1)
""")
    ctx.add('C19.R1', 'sample_alternatives:unique-chosen', ok, f, 'an unknown or duplicated chosen id is refused' if ok else 'validation of the chosen id changed', 'unique')
    g = S.methods['sample_mev_alternatives']
    ok = has(g.node, """
_RES = []
for _ST in self.second_partition:
    _N = len(_ST.subset)
    _K = _ST.sample_size
    _W = _N / _K
    _ROWS = self.alternatives[self.alternatives[self.id_column].isin(_ST.subset)]
    _S = _ROWS.sample(n=_K, replace=False, axis='index', ignore_index=True)
    _S[MEV_WEIGHT] = _W
    _RES.append(_S)
_ALL = pd.concat(_RES, ignore_index=True)
""")
    ctx.add('C19.R1', 'sample_mev_alternatives', ok, g, 'second sample: k per stratum without replacement, weight n/k' if ok else 'the second sample no longer follows the protocol', 'mev')

    # ---- R2 / R3
    G = prog.cls(CS, 'ChoiceSetsGeneration')
    pr = G.methods['process_row']
    ok = body_is(pr.body, """
_CHOICE = individual_row[self.choice_column]
_FIRST = self.sampling_of_alternatives.sample_alternatives(chosen=_CHOICE)
_FS = _FIRST.stack()
_FD = {f'{_C}_{_R}': _V for (_R, _C), _V in _FS.items()}
_ROW = individual_row.to_dict()
_ROW.update(_FD)
if self.second_partition is not None:
    _SECOND = self.sampling_of_alternatives.sample_mev_alternatives()
    _SS = _SECOND.stack()
    _SD = {f'{MEV_PREFIX}{_C}_{_R}': _V for (_R, _C), _V in _SS.items()}
    _ROW.update(_SD)
return _ROW
""") is not None
    ctx.add('C19.R2', 'process_row', ok, pr, 'columns are <column>_<row> for the main sample and _MEV_<column>_<row> for the second one; the sample is drawn for the choice of that individual' if ok else 'naming of the flattened columns changed', 'process_row')
    dv = G.methods['define_new_variables']
    DV_PATTERN = _DV
    # also with the single-definition locals (a cached prefix) written out and the spelled-out defaults (prefix=None) left out
    ok = has(dv.node, DV_PATTERN) or has(_without_default_args(prog, _inlined(dv.node)), unparse(_without_default_args(prog, ast.parse(DV_PATTERN))))
    wrongp = None
    shared = None
    if not ok:
        # the contradiction: the prefix given to rename_elementary in the loop over one sample has a KNOWN value (a literal, the
        # default None, a module constant, possibly through a local) and that value is not the prefix of that sample
        mev = _known(prog, G.module, dv.node, ast.Name(id='MEV_PREFIX', ctx=ast.Load()))
        for lp_ in [x for x in walk_no_nested(dv.node) if isinstance(x, ast.For) and isinstance(x.iter, ast.Call) and call_name(x.iter) == 'range' and len(x.iter.args) == 1]:
            which = unparse(inline_locals(dv.node, lp_.iter.args[0]))
            second = which == 'self.second_sample_size'
            if which not in ('self.second_sample_size', 'self.total_sample_size'):
                continue
            for c_ in [y for y in ast.walk(lp_) if isinstance(y, ast.Call) and call_name(y) == 'rename_elementary']:
                bound = _bind(prog, c_)
                if bound is None:
                    continue  # arguments the rule cannot name: no verdict
                # the contradiction "one object for all the positions": rename_elementary renames its receiver IN PLACE.  When the
                # suffix depends on the position and the receiver is a local that nothing binds inside the loop over the positions
                # (nearest enclosing loop of the call), the expression renamed - and stored - for position i is the object already
                # renamed for the positions before: it is not a copy of the formula made for that position
                recv = c_.func.value
                inner = [x for x in ast.walk(lp_) if isinstance(x, (ast.For, ast.While, ast.AsyncFor)) and x is not lp_ and any(y is c_ for y in ast.walk(x))]
                if isinstance(recv, ast.Name) and isinstance(lp_.target, ast.Name) and not inner and not shared and 'suffix' in bound \
                        and any(isinstance(y, ast.Name) and y.id == lp_.target.id for y in ast.walk(inline_locals(dv.node, bound['suffix']))) \
                        and not any(isinstance(y, ast.Name) and y.id == recv.id and not isinstance(y.ctx, ast.Load) for y in ast.walk(lp_)) \
                        and not any(isinstance(y, (ast.Global, ast.Nonlocal)) and recv.id in y.names for y in ast.walk(dv.node)):
                    outside = [y for y in ast.walk(dv.node) if isinstance(y, ast.Assign) and any(isinstance(t_, ast.Name) and t_.id == recv.id for t_ in y.targets) and y.lineno < lp_.lineno]
                    outside.sort(key=lambda y: y.lineno)
                    if outside:
                        shared = ((dv.file, c_.lineno), f'`{recv.id}.rename_elementary(..., suffix={unparse(bound["suffix"])})` renames in place, for every position {lp_.target.id} of the '
                                  f'{"second" if second else "main"} sample, the one object `{recv.id}` bound before the loop (line {outside[-1].lineno}: {unparse(outside[-1])[:60]}); it is not a copy of the '
                                  f'formula made for that position: the renamings of the earlier positions are already applied (the original attribute names are gone), '
                                  f'so the combined variable of position {lp_.target.id} >= 1 does not read the attributes <attr>_<{lp_.target.id}> of its own alternative')
                pre = unparse(bound['prefix']) if 'prefix' in bound else None
                val = ('known', None) if pre is None else _known(prog, G.module, dv.node, bound['prefix'])
                if val is None or mev is None:
                    continue  # a value the rule cannot follow: no verdict
                shown = 'None (the default)' if pre is None else pre if pre == repr(val[1]) else f'{pre} = {val[1]!r}'
                if second and val[1] != mev[1]:
                    wrongp = f'for the second sample the attributes are renamed with prefix={shown}: the combined variable {"{MEV_PREFIX}"}<name>_<i> then reads the attributes <attr>_<i> of the alternative at position i of the MAIN sample'
                elif not second and isinstance(val[1], str) and val[1] != '':
                    wrongp = f'for the main sample the attributes are renamed with prefix={shown}: the combined variable <name>_<i> does not read the attributes <attr>_<i> of the main sample'
    if shared and not wrongp:
        ctx.add('C19.R2', 'define_new_variables', False, shared[0], shared[1], 'define', positive=True)
    else:
        ctx.add('C19.R2', 'define_new_variables', ok if (ok or wrongp) else None, dv, wrongp if wrongp else 'combined variable j of alternative i reads the attributes with suffix _i (MEV prefix for the second sample) and is stored under the same scheme' if ok else 'naming of the combined variables changed', 'define', positive=bool(wrongp))
    M = prog.cls(GM, 'GenerateModel')
    init = M.methods['__init__']
    # the constructor is read with its own attributes written out in terms of its parameters (`self.context = context` makes
    # self.context.x and context.x the same object; `self.total_sample_size = context.total_sample_size` likewise), single-definition
    # locals written out too; the expected shapes go through the same rewriting
    env = _own_paths(init.node)
    cinit = _subst_own(_inlined(init.node), env)

    def cpat(src: str) -> str:
        return unparse(_subst_own(ast.parse(src), env))

    b = find(cinit, cpat("""
self.utilities = __U
if self.context.second_partition is None:
    self.mev_utilities = __M1
else:
    self.mev_utilities = __M2
"""))
    ok = b is not None and m_node(_parse(cpat("{_I: self.generate_utility('', f'_{_I}') for _I in range(self.total_sample_size)}"))[0].value, b['__U'][1], {}) \
        and m_node(_parse(cpat("{_I: self.utilities[_I] for _I in range(1, self.total_sample_size)}"))[0].value, b['__M1'][1], {}) \
        and m_node(_parse(cpat("{_I: self.generate_utility(self.mev_prefix, f'_{_I}') for _I in range(self.context.second_sample_size)}"))[0].value, b['__M2'][1], {})
    wrong = None
    if b is not None and not ok:
        # the same three tables over another range of positions: which alternatives of the sample have a utility.  A contradiction
        # is a literal first position other than the one of that sample, or the size of the OTHER sample as bound; any other bound
        # (a quantity the rule cannot follow) leaves the verdict open
        total, second = cpat('self.total_sample_size'), cpat('self.context.second_sample_size')
        WANT = {'__U': ("{_I: self.generate_utility('', f'_{_I}') for _I in __R}", ('0', total), 'main sample'),
                '__M1': ("{_I: self.utilities[_I] for _I in __R}", ('1', total), 'main sample without the chosen alternative'),
                '__M2': ("{_I: self.generate_utility(self.mev_prefix, f'_{_I}') for _I in __R}", ('0', second), 'second sample')}
        for key, (pat, (lo, hi), what) in WANT.items():
            bb = {}
            if m_node(_parse(cpat(pat))[0].value, b[key][1], bb) and isinstance(bb['__R'][1], ast.Call) and call_name(bb['__R'][1]) == 'range' and 1 <= len(bb['__R'][1].args) <= 2 and not bb['__R'][1].keywords:
                args = [unparse(a) for a in bb['__R'][1].args]
                got = ('0', args[0]) if len(args) == 1 else tuple(args)
                lo_wrong = re.fullmatch(r'\d+', got[0]) is not None and int(got[0]) != int(lo) and got[1] == hi
                hi_other = got[1] in (total, second) and got[1] != hi and re.fullmatch(r'\d+', got[0]) is not None
                if lo_wrong or hi_other:
                    wrong = f'the utilities of the {what} are built for positions range({", ".join(args)}); the positions of that sample are range({lo + ", " if lo != "0" else ""}{hi}): ' + \
                        (('the alternatives before position ' + got[0] + ' have no term in the model' if int(got[0]) > int(lo) else 'position ' + got[0] + ' (the chosen alternative) is not one of them') if lo_wrong
                         else 'the bound is the size of the other sample')
    if wrong:
        ctx.add('C19.R2', 'GenerateModel.__init__', False, init, wrong, 'range', positive=True)
    else:
        ctx.add('C19.R2', 'GenerateModel.__init__', ok, init, 'utility i reads the attributes with suffix _i; the second sample uses the MEV prefix; without second partition the MEV sample is the main sample minus the chosen alternative' if ok else 'construction of the sampled utilities changed', 'utilities')
    n3 = 0
    mv = _known(prog, prog.cls(SC, 'SamplingContext').module, init.node, ast.Name(id='MEV_PREFIX', ctx=ast.Load()))
    mev_text = mv[1] if mv is not None and isinstance(mv[1], str) and mv[1] else None
    for name, fn in M.methods.items():
        COMPS = (ast.DictComp, ast.ListComp, ast.SetComp, ast.GeneratorExp)
        for lp in [n for n in walk_no_nested(fn.node) if isinstance(n, (ast.For,) + COMPS)]:
            it = lp.iter if isinstance(lp, ast.For) else lp.generators[0].iter
            tgt = lp.target if isinstance(lp, ast.For) else lp.generators[0].target
            src = unparse(it)
            if src not in ('self.utilities.items()', 'self.mev_utilities.items()'):
                continue
            idx = unparse(tgt.elts[0]) if isinstance(tgt, ast.Tuple) else unparse(tgt)
            main = src == 'self.utilities.items()'
            scope = lp.body if isinstance(lp, ast.For) else [lp.key, lp.value] if isinstance(lp, ast.DictComp) else [lp.elt]
            for part in scope:
                for v in ast.walk(part):
                    if isinstance(v, ast.Call) and call_name(v) == 'Variable' and v.args:
                        js = inline_locals(fn.node, v.args[0])  # a prefix / a name kept in a local is read as what it stands for
                        if not isinstance(js, ast.JoinedStr):
                            continue
                        txt = unparse(js)
                        if not txt.endswith(f'_{{{idx}}}\'') and not txt.endswith(f'_{{{idx}}}"'):
                            continue
                        n3 += 1
                        # what the name starts with: the prefix of the second sample, a column of the generated data (then there is
                        # no prefix), or something the rule cannot follow (no verdict)
                        head = js.values[0] if js.values else None
                        lead = None
                        if isinstance(head, ast.FormattedValue):
                            lead = 'prefix' if unparse(head.value) in _PREFIX_EXPRS else 'column' if unparse(head.value) in _COLUMN_EXPRS else None
                        elif isinstance(head, ast.Constant) and isinstance(head.value, str) and head.value and mev_text is not None:
                            lead = 'prefix' if head.value.startswith(mev_text) else 'column'
                        ok = None if lead is None else (lead == 'prefix') != main
                        ctx.add('C19.R3', f'GenerateModel.{name}:{txt[:50]}', ok, (fn.file, v.lineno),
                                f'{txt} for an index over the {"main" if main else "second"} sample' + ('' if ok else ': what the name starts with is not followed' if ok is None else (' reads a column of the second (MEV) sample' if main else ' reads a column of the main sample')),
                                detail=f'{"main" if main else "mev"}:{txt}')
                        col = re.sub(r"^f['\"]|['\"]$", '', txt)
                        if lead == 'prefix' and isinstance(head, ast.FormattedValue):
                            col = col[len('{' + unparse(head.value) + '}'):]
                        okc = re.fullmatch(r'(\{LOG_PROBA_COL\}|\{MEV_WEIGHT\}|\{CNL_PREFIX\}\{(\w+)\.name\}|\{self\.context\.id_column\})_\{' + re.escape(idx) + r'\}', col)
                        if okc is not None and okc.group(2):
                            # the name is that of a nest: a loop variable over the nests
                            nv = okc.group(2)
                            okc = any(isinstance(l2, ast.For) and unparse(l2.target) == nv and unparse(l2.iter) in ('nests', 'self.context.cnl_nests') or
                                      (isinstance(l2, ast.For) and unparse(l2.target) == nv and any(isinstance(a, ast.Assign) and unparse(a.targets[0]) == unparse(l2.iter) and unparse(a.value) == 'self.context.cnl_nests' for a in walk_no_nested(fn.node)))
                                      for l2 in walk_no_nested(fn.node))
                        else:
                            okc = okc is not None
                        ctx.add('C19.R2', f'GenerateModel.{name}:{txt[:50]}', okc, (fn.file, v.lineno), f'{txt} follows the scheme <column>_<index> of the generated data' if okc else f'{txt} does not name a generated column', txt)
    if n3 < 8:
        raise AnalysisError(f'C19.R3: only {n3} column references found in GenerateModel')
    Cx = prog.cls(SC, 'SamplingContext')
    pi = Cx.methods['__post_init__']
    t = unparse(pi.node)
    ok = has(pi.node, "self.mev_prefix = '' if self.second_partition is None else MEV_PREFIX")
    ctx.add('C19.R2', 'SamplingContext.mev_prefix', ok, pi, 'the MEV prefix is used iff there is a second partition' if ok else 'definition of mev_prefix changed', 'prefix')
    lg = M.methods['get_logit']
    ok = body_is(lg.body, """
_C = {_I: _U - Variable(f'{LOG_PROBA_COL}_{_I}') for _I, _U in self.utilities.items()}
return loglogit(_C, None, 0)
""") is not None
    ctx.add('C19.R2', 'GenerateModel.get_logit', ok, lg, 'utility i is corrected by the correction column of the same i; the chosen alternative is number 0' if ok else 'get_logit changed', 'logit')

    # ---- R4
    for attr, want, what in (('self.partition', ('self.the_partition', 'self.sample_sizes'), 'main'), ('self.second_partition', ('self.mev_partition', 'self.mev_sample_sizes'), 'second')):
        ok = has(pi.node, f'{attr} = [StratumTuple(subset=_S, sample_size=_K) for _S, _K in zip({want[0]}, {want[1]})]')
        hb = None if ok else find(pi.node, f'{attr} = [StratumTuple(subset=_S, sample_size=_K) for _S, _K in zip(__P, __K)]')
        got = (unparse(hb['__P'][1]), unparse(hb['__K'][1])) if hb is not None else None
        known = {'self.the_partition', 'self.sample_sizes', 'self.mev_partition', 'self.mev_sample_sizes'}
        wrong = got is not None and got != want and set(got) <= known
        ctx.add('C19.R4', f'SamplingContext:{attr[5:]}', ok if (ok or wrong) else None, pi, f'{what} strata = zip({want[0][5:]}, {want[1][5:]})' if ok else
                (f'the {what} strata are built as zip({got[0]}, {got[1]}), not zip({want[0]}, {want[1]}): the {what} sample is drawn with other sizes / other segments than requested' if wrong else f'the construction of the {what} strata is not in the expected form'),
                what, positive=wrong)
    cfg = cfg_of(pi.node)
    pdef = [n for n in walk_no_nested(pi.node) if isinstance(n, ast.Assign) and unparse(n.targets[0]) == 'self.partition']
    chk = [n for n in walk_no_nested(pi.node) if isinstance(n, ast.Expr) and unparse(n.value) == 'self.check_partition()']
    ok = len(pdef) == 1 and len(chk) == 1 and cfg.dominates(cfg.node_of(pdef[0]), cfg.node_of(chk[0])) and cfg.must_pass(cfg.node_of(pdef[0]), {cfg.node_of(chk[0])})
    ctx.add('C19.R4', 'SamplingContext:check', ok, pi, 'the strata are validated on construction' if ok else 'check_partition is no longer run on construction', 'check')
    cp = Cx.methods['check_partition']
    RZ = "\n        ___\n        raise BiogemeError(__M{})"
    ok = body_is(cp.body, """
for _ST in self.partition:
    _N = len(_ST.subset)
    if _N == 0:""" + RZ.format(1) + """
    _K = _ST.sample_size
    if _K > _N:""" + RZ.format(2) + """
    if _K == 0:""" + RZ.format(3) + """
    for _A in _ST.subset:
        if _A not in self.alternatives[self.id_column].values:""" + RZ.format(4).replace('\n        ', '\n            ') + """
""") is not None
    ctx.add('C19.R4', 'SamplingContext.check_partition', ok, cp, 'empty stratum, k > n, k = 0 and unknown ids are refused' if ok else 'check_partition changed', 'rules')
    ok = has(pi.node, 'self.total_sample_size = sum((_S.sample_size for _S in self.partition))') and \
        has(pi.node, 'self.second_sample_size = None if self.second_partition is None else sum((_S.sample_size for _S in self.second_partition))')
    ctx.add('C19.R4', 'SamplingContext:sizes', ok, pi, 'total sizes are the sums of the requested stratum sizes' if ok else 'total sample sizes changed', 'sizes')
    st = prog.cls(SC, 'StratumTuple')
    ok = [x[0] for x in st.fields] == ['subset', 'sample_size']
    ctx.add('C19.R4', 'StratumTuple', ok, st, 'fields (subset, sample_size)' if ok else f'fields {[x[0] for x in st.fields]}', 'fields')
    cm = Cx.methods['check_mev_partition']
    if 'in_partition_not_in_nest' in unparse(cm.node) and not any(isinstance(n, ast.Raise) for n in ast.walk(cm.node) if isinstance(n, ast.Raise) and n.lineno > 166):
        ctx.note('sampling_context.check_mev_partition builds an error message for a mismatch between CNL nests and MEV partition and never raises it (outside the stated property)')


_S = 'src/biogeme/sampling_of_alternatives/sampling_of_alternatives.py'
_G = 'src/biogeme/sampling_of_alternatives/generate_model.py'
_C = 'src/biogeme/sampling_of_alternatives/sampling_context.py'
MUTANTS = [
    dict(name='correction computed after the decrement', rule='C19.R1', file=_S,
         edits=[(_S, '            logproba = np.log(sample_size) - np.log(stratum_size)\n            if chosen in stratum.subset:\n', '            if chosen in stratum.subset:\n'),
                (_S, '                sample_size -= 1\n', '                sample_size -= 1\n                logproba = np.log(sample_size) - np.log(stratum_size)\n'),
                (_S, '            # subset is a pandas data frame containing the description\n', '            logproba = np.log(sample_size) - np.log(stratum_size)\n            # subset is a pandas data frame containing the description\n')]),
    dict(name='chosen correction assigned after the loop (seed C19/2)', rule='C19.R1', file=_S,
         old='                chosen_alternative[LOG_PROBA_COL] = logproba\n', new=''),
    dict(name='sampling with replacement', rule='C19.R1', file=_S, old="                n=sample_size, replace=False, axis=\"index\", ignore_index=True\n            )\n\n            sample[LOG_PROBA_COL]", new="                n=sample_size, replace=True, axis=\"index\", ignore_index=True\n            )\n\n            sample[LOG_PROBA_COL]"),
    dict(name='chosen alternative appended last', rule='C19.R1', file=_S, old='pd.concat([chosen_alternative, the_sample], ignore_index=True)', new='pd.concat([the_sample, chosen_alternative], ignore_index=True)'),
    dict(name='MEV weight inverted', rule='C19.R1', file=_S, old='            mev_weight = stratum_size / sample_size', new='            mev_weight = sample_size / stratum_size'),
    dict(name='chosen not removed from the stratum', rule='C19.R1', file=_S, old='                the_subset_of_alternatives.discard(chosen)\n', new=''),
    dict(name='pre-fix: main-sample alpha read from the MEV sample', rule='C19.R3', file=_G, old='                alpha = Variable(f"{CNL_PREFIX}{nest.name}_{i}")\n                mu_param = nest.nest_param\n                mev_sum', new='                alpha = Variable(f"{self.mev_prefix}{CNL_PREFIX}{nest.name}_{i}")\n                mu_param = nest.nest_param\n                mev_sum'),
    dict(name='MEV weight read from the main sample', rule='C19.R3', file=_G, old='                weight = Variable(f"{self.mev_prefix}{MEV_WEIGHT}_{i}")\n                the_term = ConditionalTermTuple(\n                    condition=belong_to_nest', new='                weight = Variable(f"{MEV_WEIGHT}_{i}")\n                the_term = ConditionalTermTuple(\n                    condition=belong_to_nest'),
    dict(name='second sample columns written without prefix', rule='C19.R2', file='src/biogeme/sampling_of_alternatives/choice_set_generation.py', old='                f"{MEV_PREFIX}{col_name}_{row}": value', new='                f"{col_name}_{row}": value'),
    dict(name='second strata zipped with the main sizes (seed C19/1)', rule='C19.R4', file=_C, old='                for segment, size in zip(self.mev_partition, self.mev_sample_sizes)', new='                for segment, size in zip(self.mev_partition, self.sample_sizes)'),
    dict(name='k > n accepted', rule='C19.R4', file=_C, old='            if k > n:\n', new='            if k > 10 * n:\n'),
]
NEUTRAL = []
