"""C13 - data-set transformations keep rows and values intact (narrow structural clauses)."""

from __future__ import annotations

import ast
import re

from ..cfg import cfg_of
from ..core import inline_locals, named_args, seq, AnalysisError, call_name, unparse, walk_no_nested
from ..pattern import body_is, find, find_expr, has, has_expr
from ..report import Ctx

#: functions that select rows by integer position (0..n-1): reason
POSITIONAL = {
    ('database', 'Database.sample_with_replacement'): 'random positions drawn in [0, len(data))',
    ('database', 'Database.sample_individual_map_with_replacement'): 'random positions drawn in [0, len(individualMap))',
    ('database', 'Database.extract_rows'): 'caller passes positions, validated against len(data)',
    ('database', 'Database.mdcev_row_split'): 'one database per position',
}


#: obligations whose failure contradicts the property (rule, construct pattern, why); every other failure is 'not recognised'
POSITIVE: list[tuple[str, str, str]] = [
]


def run(ctx: Ctx) -> None:
    ctx.positive_table = list(POSITIVE)
    prog = ctx.prog
    ctx.rule('C13.R1', 'positional discipline: after remove() the row index has gaps, so every selection of rows by integer position uses .iloc on the frame whose '
             'length bounds the positions; .loc / plain [] with positions is a violation')
    ctx.rule('C13.R2', 'remove: the count stored in excludedData and the drop use the same predicate on the same temporary column, which is dropped afterwards; '
             'add_column stores the engine result after the duplicate-name test; scale_column multiplies exactly the named column')
    ctx.rule('C13.R3', 'split: estimation part i is the concatenation of all slices but i, validation part is slice i; grouped slicing selects by membership of the '
             'group id; on panel data the panel column is always the grouping column')
    ctx.rule('C13.R4', 'flattening: a column counts as constant within an individual only if every row of the individual agrees with the first one')
    ctx.not_decided += ['the resulting values (pandas semantics, randomness)', 'the layout of the flattened table']
    D = prog.cls('database', 'Database')
    for (mod, qn), why in POSITIONAL.items():
        f = prog.func(mod, qn)
        subs = [n for n in walk_no_nested(f.node) if isinstance(n, ast.Subscript) and isinstance(n.value, ast.Attribute) and n.value.attr in ('iloc', 'loc', 'iat', 'at')]
        # the table an indexer is applied to: single-definition locals and copies (`.copy()`) are looked through
        frames = {id(n): unparse(_frame(f.node, n.value.value)) for n in subs}
        # an indexer that addresses all rows (`.loc[:, cols]`, `.iloc[:]`) selects no rows: it is looked through (_frame), not judged
        subs = [n for n in subs if not _all_rows(n)]
        sel = [n for n in subs if frames[id(n)] in ('self.data', 'self.individualMap')]
        other = [n for n in subs if frames[id(n)] in SNAPSHOTS and _is_snapshot(D, frames[id(n)])]
        if not sel and other:
            fr = frames[id(other[0])]
            ctx.add('C13.R1', f'{qn}:selection', False, (f.file, other[0].lineno), f'{qn} takes its rows from {fr} ({SNAPSHOTS[fr]}), not from self.data: self.data is the table that remove(), add_column(), scale_column() and the sorting done '
                    f'for panel data keep current, {fr} is not kept in step with it - rows that were removed can come back and added columns are missing', fr, positive=True)
            continue
        if not sel:
            plain = [n for n in walk_no_nested(f.node) if isinstance(n, ast.Subscript) and unparse(n.value) in ('self.data', 'self.individualMap')]
            strange = sorted({frames[id(n)][:40] for n in subs if frames[id(n)].startswith('self.')})
            ctx.add('C13.R1', f'{qn}:selection', None, f, f'{qn}: the rows are not selected with an indexer on self.data / self.individualMap in a form the rule understands '
                    f'(plain subscripts {[unparse(p)[:40] for p in plain]}, indexers on {strange})', 'no indexer')
            continue
        for n in sel:
            frame = frames[id(n)]
            ok = n.value.attr == 'iloc'
            # .loc with labels obtained from the positions (frame.index[positions]) is a selection by label: not decided here
            labels = any(isinstance(x, ast.Attribute) and x.attr == 'index' for x in ast.walk(inline_locals(f.node, n.slice)))
            # a boolean mask (a comparison, isin, a negation) selects by condition, not by position: not decided here either
            rows = inline_locals(f.node, n.slice.elts[0] if isinstance(n.slice, ast.Tuple) and n.slice.elts else n.slice)
            mask = any(isinstance(x, ast.Compare) or (isinstance(x, ast.UnaryOp) and isinstance(x.op, ast.Invert)) or (isinstance(x, ast.Call) and call_name(x) in ('isin', 'duplicated', 'isna', 'notna', 'isnull', 'notnull', 'between'))
                       for x in ast.walk(rows))
            bylabel = n.value.attr in ('loc', 'at') and not labels and not mask
            ctx.add('C13.R1', f'{qn}:{frame}.{n.value.attr}', ok if (ok or bylabel) else None, (f.file, n.lineno),
                    f'{frame}.{n.value.attr}[{unparse(n.slice)[:50]}] ({why})' + ('' if ok else (': positions are used as labels - wrong rows (or KeyError) once the index has gaps' if bylabel else
                                                                                     ': not a selection by position in a form the rule understands')), f'{frame}.{n.value.attr}', positive=bylabel)
            # the bound of the positions is the length of the same frame
            rnd = [c for c in ast.walk(inline_locals(f.node, n.slice)) if isinstance(c, ast.Call) and call_name(c) == 'randint']
            if rnd:
                okb = all(len(c.args) >= 2 and unparse(c.args[0]) == '0' and unparse(inline_locals(f.node, c.args[1])) in (f'len({frame})', f'{frame}.shape[0]') for c in rnd)
            else:
                okb = has(f.node, f'''
_MAX = len({frame}) - 1
if any((_I < 0 or _I > _MAX for _I in a_range)):
    ___
    raise __EXC
''') or has_expr(f.node, f'range(len({frame}))')
            ctx.add('C13.R1', f'{qn}:bound', okb, (f.file, n.lineno), f'positions are bounded by len({frame})' if okb else f'positions are not bounded by len({frame})', 'bound')
    ctx.floor('C13.R1', 8)

    # flattening: a column is the same for all rows of an individual only if EVERY row agrees with the first
    fl = prog.func('tools.database', 'flatten_database')
    avi = next((x for x in ast.walk(fl.node) if isinstance(x, ast.FunctionDef) and x.name == 'are_values_identical'), None)
    if avi is None:
        ctx.add('C13.R4', 'flatten_database:identical', None, fl, 'the test that detects the columns that are constant within an individual is not in the expected form (nested function are_values_identical)', 'identical')
    else:
        col = avi.args.args[0].arg
        rets_ = [r_ for r_ in ast.walk(avi) if isinstance(r_, ast.Return) and r_.value is not None]
        okv = len(rets_) == 1 and unparse(rets_[0].value) in (f'({col}.iloc[0] == {col}).all(0)', f'({col}.iloc[0] == {col}).all()', f'({col} == {col}.iloc[0]).all()', f'{col}.nunique() == 1', f'{col}.nunique() <= 1')
        two = None
        if not okv and len(rets_) == 1 and isinstance(rets_[0].value, ast.Compare) and len(rets_[0].value.ops) == 1:
            l_, r2_ = rets_[0].value.left, rets_[0].value.comparators[0]
            if all(isinstance(z, ast.Subscript) and unparse(z.value) == f'{col}.iloc' and isinstance(z.slice, (ast.Constant, ast.UnaryOp)) for z in (l_, r2_)):
                two = f'are_values_identical returns {unparse(rets_[0].value)}: two rows of the individual are compared, not all of them; a column that differs in between is taken for constant and its other values are lost when the panel is flattened'
        ctx.add('C13.R4', 'flatten_database:identical', okv if (okv or two) else None, (fl.file, avi.lineno), 'a column is kept once per individual only if all its rows agree with the first' if okv else
                (two or 'the test that detects the columns that are constant within an individual is not in the expected form'), 'identical', positive=bool(two))
    f = D.methods['remove']
    b = find(f.node, """
_COL = __NAME
___
self.add_column(_E, _COL)
self.excludedData = len(__COUNTED)
self.data.drop(__DROPPED, inplace=True)
self.data.drop(columns=[_COL], inplace=True)
""")
    if b is None:
        ctx.shape('C13.R2', 'Database.remove', False, f, '', 'a temporary column receives the expression; excludedData = len(rows where it is non-zero); those rows are dropped; the column is dropped')
    else:

        col = b['_COL']
        pred = f'self.data[self.data[{col}] != 0].index'
        counted, dropped = (unparse(inline_locals(f.node, b[k][1])) for k in ('__COUNTED', '__DROPPED'))
        pred = unparse(inline_locals(f.node, ast.parse(pred).body[0].value))
        ok = counted == pred and dropped == pred
        ctx.add('C13.R2', 'Database.remove', ok, f, 'counts and drops the rows where the expression is non-zero, then drops the temporary column' if ok
                else f'remove counts {counted} and drops {dropped}; both must be the rows where the temporary column is non-zero ({pred})', f'{counted} ; {dropped}')
    f = D.methods['add_column']
    cfg = cfg_of(f.node)
    dup = [n for n in walk_no_nested(f.node) if isinstance(n, ast.If) and unparse(n.test) == 'column in self.data.columns' and any(isinstance(x, ast.Raise) for x in n.body)]
    store = [n for n in walk_no_nested(f.node) if isinstance(n, ast.Assign) and unparse(n.targets[0]) == 'self.data[column]']
    ok = len(dup) == 1 and len(store) == 1 and cfg.dominates(cfg.node_of(dup[0]), cfg.node_of(store[0]))
    if ok:
        val = inline_locals(f.node, store[0].value)
        ok = isinstance(val, ast.Call) and call_name(val) == 'get_value_c' and {k: v for k, v in named_args(val).items() if k in ('database', 'aggregation', 'prepare_ids')} == {'database': 'self', 'aggregation': 'False', 'prepare_ids': 'True'}
    ctx.add('C13.R2', 'Database.add_column', ok, f, 'the per-row values of the formula are stored under the new name, an existing name is refused first' if ok else 'add_column changed', 'add_column')
    f = D.methods['scale_column']
    ok = [unparse(s) for s in f.body] == ['self.data[column] *= scale']
    ctx.add('C13.R2', 'Database.scale_column', ok, f, 'exactly the named column is multiplied' if ok else f'scale_column: {[unparse(s) for s in f.body]}', 'scale')
    f = D.methods['define_variable']
    ok = [unparse(s) for s in f.body] == ['self.add_column(expression, name)', 'return Variable(name)']
    ctx.add('C13.R2', 'Database.define_variable', ok, f, 'define_variable adds the column and returns the variable of that name' if ok else 'define_variable changed', 'define')

    f = D.methods['split']
    cfg = cfg_of(f.node)
    txt = unparse(f.node)
    b = find(f.node, """
_EST = []
_VAL = []
for _I, _V in enumerate(_SL):
    _EST.append(pd.concat(_SL[:_I] + _SL[_I + 1:]))
    _VAL.append(_V)
return __RET
""")
    from ..pattern import m_node, _parse
    if b is not None:
        # comprehension variables live in their own scope: matched with fresh bindings
        bb = {'_EST': b['_EST'], '_VAL': b['_VAL']}
        if not m_node(_parse('[EstimationValidation(estimation=_E, validation=_W) for _E, _W in zip(_EST, _VAL)]')[0].value, b['__RET'][1], bb):
            b = None
    else:
        # the same folds built in one comprehension
        b = find(f.node, 'return [EstimationValidation(estimation=pd.concat(_SL[:_I] + _SL[_I + 1:]), validation=_V) for _I, _V in enumerate(_SL)]')
    bylabel = None
    if b is None:
        # positive: the estimation part is obtained by taking the rows of the validation part away from the table BY INDEX LABEL
        bylabel = _estimation_by_label(f.node)
    if bylabel:
        node, what, table, val = bylabel
        ctx.add('C13.R3', 'Database.split:folds', False, (f.file, node.lineno), f'the estimation part of a fold is `{unparse(node)[:90]}`: {what} - the rows of the validation part `{val}` are taken away from {table} by index LABEL, '
                f'not by row. The row index of a Database need not be unique (a bootstrap sample from sample_with_replacement, extract_rows with a repeated position keep the labels of the rows they copy), and then '
                f'every row of the other slices that carries a label also present in `{val}` is dropped too: the estimation part is smaller than the complement of the validation part. It must be built from the other slices '
                f'(pd.concat of all slices but i)', 'folds', positive=True)
    else:
        ctx.add('C13.R3', 'Database.split:folds', b is not None, f, 'estimation part i = all slices but i, validation part = slice i, paired fold by fold' if b is not None else 'construction or pairing of the folds changed', 'folds')
    sl = b['_SL'] if b else '_SL'
    ok = has(f.node, f"""
if groups is None:
    ___
else:
    _IDS = self.data[groups].unique()
    ___
    _SIDS = np.array_split(_IDS, slices)
    {sl} = [self.data[self.data[groups].isin(_X)] for _X in _SIDS]
""")
    ctx.add('C13.R3', 'Database.split:groups', ok, f, 'grouped slices contain all rows of the selected group ids' if ok else 'grouped slicing changed', 'groups')
    ok = has(f.node, f"""
if groups is None:
    _SH = self.data.sample(frac=1)
    {sl} = np.array_split(_SH, slices)
else:
    ___
""")
    lost = None
    if not ok:
        # positive: blocks of len // slices rows taken by position leave the last len % slices rows in no slice
        for pat in ('[_SH.iloc[_I * _S:(_I + 1) * _S] for _I in range(slices)]', '[_SH[_I * _S:(_I + 1) * _S] for _I in range(slices)]'):
            for hit in find_expr(f.node, pat):
                size = [a for a in walk_no_nested(f.node) if isinstance(a, ast.Assign) and unparse(a.targets[0]) == hit['_S']]
                if len(size) == 1 and re.fullmatch(r'(len\((\w+)\)|(\w+)\.shape\[0\]) // slices', unparse(size[0].value)):
                    lost = f'{unparse(hit["__node__"])[:90]} with {unparse(size[0])}'
    if lost:
        ctx.add('C13.R3', 'Database.split:rows', False, f, f'the slices are blocks of len // slices rows taken by position ({lost}): when the number of rows is not a multiple of `slices` the last len % slices rows '
                'are in no validation part and in no estimation part - the folds do not contain every row once', 'rows', positive=True)
    else:
        ctx.add('C13.R3', 'Database.split:rows', ok, f, 'ungrouped slices partition a permutation of all rows' if ok else 'ungrouped slicing changed', 'rows')
    # panel: groups = panelColumn dominates the choice between grouped and ungrouped slicing
    setg = [n for n in walk_no_nested(f.node) if isinstance(n, ast.Assign) and unparse(n.targets[0]) == 'groups' and unparse(n.value) == 'self.panelColumn']
    choose = [n for n in walk_no_nested(f.node) if isinstance(n, ast.If) and _none_test(n.test, 'groups') is True]
    # every other binding of `groups` / of the panel column in the function (the parameter apart)
    own = {id(t) for a in setg for t in a.targets}
    rebound = [x for x in walk_no_nested(f.node) if isinstance(x, (ast.Name, ast.Attribute)) and isinstance(x.ctx, (ast.Store, ast.Del)) and unparse(x) in ('groups', 'self.panelColumn') and id(x) not in own]
    ok = False
    narrowed = None
    if len(setg) == 1 and len(choose) == 1 and 'groups' in f.params() and seq(setg[0]) < seq(choose[0]):
        chain = _guards(f.node, setg[0])
        if isinstance(chain, list) and chain:
            facts = _facts(chain)
            kinds = [_kind_of_fact(f.node, cfg, chain[0][0], e, pol, rebound) for e, pol in facts]
            top = next(n for n in walk_no_nested(f.node) if isinstance(n, ast.If) and n.test is chain[0][0])
            before = cfg.dominates(cfg.node_of(top), cfg.node_of(choose[0]))
            # exactly "the data are panel data"; conjuncts that are proved to hold there (or under which the assignment is a no-op) do not count
            ok = before and not rebound and kinds.count('panel') >= 1 and all(k in ('panel', 'holds', 'no-op') for k in kinds)
            if not ok and before and not rebound and 'not-none' in kinds:
                # the seeded defect: the assignment sits under a test that fails exactly in the case it is there for (no grouping column given)
                cond = ' and '.join(('' if pol else 'not ') + f'({unparse(e)})' for (e, pol), k in zip(facts, kinds) if k == 'not-none')
                narrowed = (f'`groups = self.panelColumn` is executed only when `{cond}` holds, that is never when the caller gives no grouping column; `groups` is not bound anywhere else, so on panel data '
                            f'a call without `groups` reaches `if groups is None:` with None, shuffles single rows and separates the observations of one individual')
    ctx.add('C13.R3', 'Database.split:panel', ok if (ok or narrowed) else None, f, 'on panel data the rows of one individual are never separated (groups = panel column whenever is_panel())' if ok else
            (narrowed or 'the way the panel column becomes the grouping column is not in the expected form'), 'panel', positive=bool(narrowed))


def _elements_of(fn, seq_: ast.expr):
    """the expression every element of the list `seq_` (a name bound once in fn) is computed by, with the comprehension / loop it
    stands in; None when the list is not built in a form understood here"""
    def comp(v):
        if isinstance(v, ast.Call) and call_name(v) == 'list' and len(v.args) == 1 and not v.keywords and isinstance(v.args[0], (ast.ListComp, ast.GeneratorExp)):
            v = v.args[0]
        return v.elt if isinstance(v, (ast.ListComp, ast.GeneratorExp)) else None
    if comp(seq_) is not None:
        return comp(seq_)
    if not isinstance(seq_, ast.Name):
        return None
    binds = [a for a in walk_no_nested(fn) if isinstance(a, (ast.Assign, ast.AugAssign, ast.AnnAssign)) and any(isinstance(x, ast.Name) and x.id == seq_.id and isinstance(x.ctx, ast.Store) for x in ast.walk(a))]
    if len(binds) != 1 or not isinstance(binds[0], ast.Assign) or len(binds[0].targets) != 1 or not isinstance(binds[0].targets[0], ast.Name):
        return None
    v = binds[0].value
    if comp(v) is not None:
        return comp(v)
    if isinstance(v, ast.List) and not v.elts:
        # filled by exactly one `.append(X)`; no other use of the name as a receiver
        uses = [c for c in walk_no_nested(fn) if isinstance(c, ast.Call) and isinstance(c.func, ast.Attribute) and isinstance(c.func.value, ast.Name) and c.func.value.id == seq_.id]
        if len(uses) == 1 and uses[0].func.attr == 'append' and len(uses[0].args) == 1 and not uses[0].keywords:
            return uses[0].args[0]
    return None


def _estimation_by_label(fn):
    """(expression, what it is, table, validation name) when the value given as `estimation` to EstimationValidation is the table with the
    rows of a per-fold frame V removed through V's index labels (`T.drop(index=V.index)`, `T[~T.index.isin(V.index)]`,
    `T.loc[T.index.difference(V.index)]`), T being self.data (a shuffle / copy of it); None in every other case"""
    txt = unparse(fn)
    if any(w in txt for w in ('reset_index', 'set_index', 'ignore_index', 'reindex', 'drop_duplicates', 'is_unique')):
        return None  # the labels may have been made unique: not judged
    if any(isinstance(x, ast.Attribute) and x.attr == 'index' and isinstance(x.ctx, ast.Store) for x in walk_no_nested(fn)):
        return None
    # names bound per fold: targets of the loops / comprehensions of the function
    per_fold = set()
    for n in walk_no_nested(fn):
        tg = [n.target] if isinstance(n, ast.For) else [g.target for g in n.generators] if isinstance(n, (ast.ListComp, ast.GeneratorExp)) else []
        per_fold |= {x.id for t in tg for x in ast.walk(t) if isinstance(x, ast.Name)}
    calls = [c for c in walk_no_nested(fn) if isinstance(c, ast.Call) and call_name(c) == 'EstimationValidation']
    if not calls:
        return None
    for c in calls:
        est = next((k.value for k in c.keywords if k.arg == 'estimation'), c.args[0] if c.args and not isinstance(c.args[0], ast.Starred) else None)
        if est is None:
            return None
        if isinstance(est, ast.Name) and est.id in per_fold:
            # element of a list: `for e, v in zip(EST, VAL)` / `for e in EST`
            holder = [n for n in walk_no_nested(fn) if isinstance(n, (ast.ListComp, ast.GeneratorExp)) and any(x is c for x in ast.walk(n.elt))
                      or isinstance(n, ast.For) and any(x is c for st in n.body for x in ast.walk(st))]
            gens = [(g.target, g.iter) for h in holder for g in (h.generators if not isinstance(h, ast.For) else [h])]
            src = None
            for tgt, it in gens:
                if isinstance(tgt, ast.Name) and tgt.id == est.id:
                    src = it
                elif isinstance(tgt, ast.Tuple) and isinstance(it, ast.Call) and call_name(it) == 'zip' and not it.keywords and len(it.args) == len(tgt.elts) \
                        and not any(isinstance(a, ast.Starred) for a in it.args):
                    for t_, a_ in zip(tgt.elts, it.args):
                        if isinstance(t_, ast.Name) and t_.id == est.id:
                            src = a_
            est = _elements_of(fn, src) if src is not None else None
            if est is None:
                return None
        hit = _label_complement(fn, est, per_fold)
        if hit:
            return hit
    return None


def _root_table(fn, e: ast.expr):
    """'self.data' when e is self.data, a shuffle (`.sample(...)`) or a copy of it, possibly through locals bound once"""
    e = _frame(fn, e)
    while isinstance(e, ast.Call) and isinstance(e.func, ast.Attribute) and e.func.attr in ('sample', 'copy'):
        e = _frame(fn, e.func.value)
    return unparse(e) if unparse(e) == 'self.data' else None


def _index_of(e: ast.expr, per_fold):
    """V when e is `V.index` (`.tolist()`, `.values`, `list(...)`, `set(...)` of it), V a per-fold name"""
    while True:
        if isinstance(e, ast.Call) and isinstance(e.func, ast.Attribute) and e.func.attr in ('tolist', 'to_list', 'to_numpy', 'unique') and not e.args:
            e = e.func.value
        elif isinstance(e, ast.Call) and call_name(e) in ('list', 'set', 'tuple') and len(e.args) == 1 and not e.keywords:
            e = e.args[0]
        elif isinstance(e, ast.Attribute) and e.attr == 'values':
            e = e.value
        else:
            break
    if isinstance(e, ast.Attribute) and e.attr == 'index' and isinstance(e.value, ast.Name) and e.value.id in per_fold:
        return e.value.id
    return None


def _label_complement(fn, e: ast.expr, per_fold):
    # T.drop(V.index) / T.drop(index=V.index) / T.drop(labels=V.index[, axis=0])
    if isinstance(e, ast.Call) and isinstance(e.func, ast.Attribute) and e.func.attr == 'drop':
        kw = {k.arg: k.value for k in e.keywords}
        lab = e.args[0] if len(e.args) == 1 else kw.get('index', kw.get('labels')) if not e.args else None
        axis = unparse(kw['axis']) if 'axis' in kw else '0'
        if lab is not None and 'columns' not in kw and None not in kw and axis in ('0', "'index'", "'rows'") and unparse(kw.get('inplace', ast.Constant(False))) == 'False':
            v, t = _index_of(lab, per_fold), _root_table(fn, e.func.value)
            if v and t:
                return e, 'DataFrame.drop removes every row whose label is listed', t, v
        return None
    # T[mask] / T.loc[mask] with mask = ~T.index.isin(V.index), or T.loc[T.index.difference(V.index)]
    if isinstance(e, ast.Subscript):
        tab = e.value.value if isinstance(e.value, ast.Attribute) and e.value.attr == 'loc' else e.value
        rows = e.slice.elts[0] if isinstance(e.slice, ast.Tuple) and e.slice.elts else e.slice
        t = _root_table(fn, tab)
        if not t:
            return None
        if isinstance(rows, ast.UnaryOp) and isinstance(rows.op, ast.Invert):
            m = rows.operand
            if isinstance(m, ast.Call) and isinstance(m.func, ast.Attribute) and m.func.attr == 'isin' and len(m.args) == 1 and not m.keywords \
                    and isinstance(m.func.value, ast.Attribute) and m.func.value.attr == 'index' and _root_table(fn, m.func.value.value):
                v = _index_of(m.args[0], per_fold)
                if v:
                    return e, 'the mask keeps a row only if its label does not occur in the validation part', t, v
        if isinstance(rows, ast.Call) and isinstance(rows.func, ast.Attribute) and rows.func.attr == 'difference' and len(rows.args) == 1 \
                and isinstance(rows.func.value, ast.Attribute) and rows.func.value.attr == 'index' and _root_table(fn, rows.func.value.value) \
                and isinstance(e.value, ast.Attribute) and e.value.attr == 'loc':
            v = _index_of(rows.args[0], per_fold)
            if v:
                return e, 'Index.difference keeps a label only if it does not occur in the validation part', t, v
    return None


#: tables of a Database that are NOT kept in step with self.data by remove / add_column / scale_column / panel: what they hold
SNAPSHOTS = {
    'self.fullData': 'the table as it was given to the constructor',
    'self.fullIndividualMap': 'the individual map as panel() built it',
}


def _is_snapshot(D, text: str) -> bool:
    """the attribute is indeed a table of the class (bound somewhere in it)"""
    return any(isinstance(a, ast.Assign) and any(unparse(t) == text for t in a.targets) for m_ in D.methods.values() for a in walk_no_nested(m_.node))


def _frame(func_node, e: ast.expr) -> ast.expr:
    """the table behind an expression: single-definition locals are replaced by their value, copies of a table are that table"""
    e = inline_locals(func_node, e)
    while True:
        if isinstance(e, ast.Call) and isinstance(e.func, ast.Attribute) and e.func.attr == 'copy' and not e.args and all(k.arg == 'deep' for k in e.keywords):
            e = e.func.value
        elif _all_rows(e):
            e = e.value.value  # all rows of the table (possibly fewer columns): the same rows at the same positions
        else:
            return e


def _all_rows(e: ast.expr) -> bool:
    """`T.loc[:]`, `T.loc[:, cols]`, `T.iloc[:, :]` ...: an indexer whose row part is the full slice"""
    if not (isinstance(e, ast.Subscript) and isinstance(e.value, ast.Attribute) and e.value.attr in ('loc', 'iloc')):
        return False
    rows = e.slice.elts[0] if isinstance(e.slice, ast.Tuple) and e.slice.elts else e.slice
    return isinstance(rows, ast.Slice) and rows.lower is None and rows.upper is None and rows.step is None


def _none_test(t: ast.expr, name: str):
    """True: t says `name is None`; False: t says `name is not None`; None: something else"""
    if isinstance(t, ast.UnaryOp) and isinstance(t.op, ast.Not):
        r = _none_test(t.operand, name)
        return None if r is None else not r
    if isinstance(t, ast.Compare) and len(t.ops) == 1:
        a, b = unparse(t.left), unparse(t.comparators[0])
        if {a, b} == {name, 'None'}:
            if isinstance(t.ops[0], (ast.Is, ast.Eq)):
                return True
            if isinstance(t.ops[0], (ast.IsNot, ast.NotEq)):
                return False
    return None


def _guards(func_node, stmt):
    """the tests that decide whether stmt is executed: [(test, branch taken)] from the outermost `if` inwards;
    'other' when a loop / try / with stands in between, None when stmt is not in the function"""
    def rec(body, acc):
        for st in body:
            if st is stmt:
                return acc
            if isinstance(st, ast.If):
                for blk, pol in ((st.body, True), (st.orelse, False)):
                    r = rec(blk, acc + [(st.test, pol)])
                    if r is not None:
                        return r
            elif not isinstance(st, (ast.FunctionDef, ast.AsyncFunctionDef, ast.ClassDef)) and any(x is stmt for x in ast.walk(st)):
                return 'other'
        return None
    return rec(func_node.body, [])


def _facts(chain) -> list[tuple[ast.expr, bool]]:
    """what is known to hold where the chain of tests leads: (expression, its truth value); a conjunction taken on its true
    side gives its conjuncts, a disjunction taken on its false side gives its disjuncts (false), `not` flips"""
    out = []

    def put(e, pol):
        if isinstance(e, ast.UnaryOp) and isinstance(e.op, ast.Not):
            put(e.operand, not pol)
        elif isinstance(e, ast.BoolOp) and isinstance(e.op, ast.And if pol else ast.Or):
            for v in e.values:
                put(v, pol)
        else:
            out.append((e, pol))
    for t, pol in chain:
        put(t, pol)
    return out


_FLIP = {ast.Lt: ast.GtE, ast.GtE: ast.Lt, ast.Gt: ast.LtE, ast.LtE: ast.Gt, ast.Eq: ast.NotEq, ast.NotEq: ast.Eq, ast.Is: ast.IsNot, ast.IsNot: ast.Is, ast.In: ast.NotIn, ast.NotIn: ast.In}
_MIRROR = {ast.Lt: ast.Gt, ast.Gt: ast.Lt, ast.LtE: ast.GtE, ast.GtE: ast.LtE, ast.Eq: ast.Eq, ast.NotEq: ast.NotEq}
_PANEL = ('self.is_panel()', 'self.isPanel()', 'self.panelColumn is not None', 'None is not self.panelColumn', 'self.panelColumn != None')


def _same_claim(e: ast.expr, pol: bool) -> set[str]:
    """texts of the comparison that says the same as `e is pol` (operator flipped for pol False, operands mirrored)"""
    out = {unparse(e)} if pol else {f'not {unparse(e)}'}
    if isinstance(e, ast.Compare) and len(e.ops) == 1:
        op = type(e.ops[0]) if pol else _FLIP.get(type(e.ops[0]))
        if op is not None:
            out.add(unparse(ast.Compare(left=e.left, ops=[op()], comparators=e.comparators)))
            if op in _MIRROR:
                out.add(unparse(ast.Compare(left=e.comparators[0], ops=[_MIRROR[op]()], comparators=[e.left])))
    return out


def _raises(body) -> bool:
    return bool(body) and isinstance(body[-1], ast.Raise)


def _kind_of_fact(func_node, cfg, top_test, e: ast.expr, pol: bool, rebound) -> str:
    """role of one fact among the tests that guard `groups = self.panelColumn`:
    'panel'    the data are panel data
    'not-none' it implies that a grouping column was given (groups is not None)
    'holds'    it is known to hold at that point: an earlier top-level `if <the contrary>: ... raise` was passed and nothing it reads is rebound
    'no-op'    `groups is None`, while an earlier top-level test has raised unless groups is None or already equals the panel column:
               in the case the fact excludes, the assignment would not change anything
    'unknown'  anything else"""
    txt = unparse(e)
    if txt in _PANEL:
        return 'panel' if pol else 'unknown'
    nt = _none_test(e, 'groups')
    if nt is not None:
        if nt != pol:
            return 'not-none'
    elif pol and (txt == 'groups' or txt in ('isinstance(groups, str)', 'bool(groups)')):
        return 'not-none'
    tops = list(func_node.body)
    here = next((i for i, st in enumerate(tops) if isinstance(st, ast.If) and st.test is top_test), None)
    if here is None or rebound:
        return 'unknown'
    earlier = [st for st in tops[:here] if isinstance(st, ast.If)]
    if any(isinstance(x, (ast.Return, ast.Break, ast.Continue)) for st in tops[:here] for x in ast.walk(st)) or not all(isinstance(st, (ast.If, ast.Expr, ast.Assign, ast.AnnAssign)) for st in tops[:here]):
        return 'unknown'
    if nt is not None and nt == pol:
        # groups is None is required: harmless when "groups given, panel data, groups differs from the panel column" has been refused before
        for st in earlier:
            for r in ast.walk(st):
                if isinstance(r, ast.Raise):
                    ch = _guards(func_node, r)
                    if not isinstance(ch, list):
                        continue
                    fs = _facts(ch)
                    diff = [(x, p_) for x, p_ in fs if _same_claim(x, p_) & {'groups != self.panelColumn', 'self.panelColumn != groups'}]
                    rest = [(x, p_) for x, p_ in fs if (x, p_) not in diff]
                    if len(diff) >= 1 and all((unparse(x) in _PANEL and p_) or (_none_test(x, 'groups') is not None and _none_test(x, 'groups') != p_) for x, p_ in rest):
                        return 'no-op'
        return 'unknown'
    # a test whose contrary has been refused before
    reads = {unparse(x) for x in ast.walk(e) if isinstance(x, (ast.Name, ast.Attribute))}
    stored = {unparse(x) for n in walk_no_nested(func_node) for x in ast.walk(n) if isinstance(x, (ast.Name, ast.Attribute)) and isinstance(getattr(x, 'ctx', None), (ast.Store, ast.Del))}
    if reads & stored or any(isinstance(x, ast.Call) for x in ast.walk(e)):
        return 'unknown'
    claim = _same_claim(e, pol)
    for st in earlier:
        if _raises(st.body) and not st.orelse:
            contrary = _facts([(st.test, True)])
            if len(contrary) == 1 and _same_claim(contrary[0][0], not contrary[0][1]) & claim:
                return 'holds'
    return 'unknown'


_D = 'src/biogeme/database.py'
MUTANTS = [
    dict(name='extract_rows uses .loc (seed C13/2)', rule='C13.R1', file=_D, old='        reduced_data_frame = self.data.iloc[list(a_range)]', new='        reduced_data_frame = self.data.loc[list(a_range)]'),
    dict(name='bootstrap sample uses .loc', rule='C13.R1', file=_D, old='        sample = self.data.iloc[np.random.randint(0, len(self.data), size=size)]', new='        sample = self.data.loc[np.random.randint(0, len(self.data), size=size)]'),
    dict(name='mdcev_row_split uses .loc', rule='C13.R1', file=_D, old='pandas_database=self.data.iloc[[i]])', new='pandas_database=self.data.loc[[i]])'),
    dict(name='panel bootstrap bounded by the number of rows', rule='C13.R1', file=_D,
         old='            np.random.randint(0, len(self.individualMap), size=size)', new='            np.random.randint(0, self.data.shape[0], size=size)'),
    dict(name='remove counts with == 0', rule='C13.R2', file=_D, old='        self.excludedData = len(self.data[self.data[column_name] != 0].index)', new='        self.excludedData = len(self.data[self.data[column_name] == 0].index)'),
    dict(name='remove keeps the temporary column', rule='C13.R2', file=_D, old='        self.data.drop(columns=[column_name], inplace=True)\n', new=''),
    dict(name='add_column overwrites an existing column', rule='C13.R2', file=_D,
         old="        if column in self.data.columns:\n            raise ValueError(\n                f'Column {column} already exists in the database {self.name}'\n            )\n", new=''),
    dict(name='split: estimation part includes slice i', rule='C13.R3', file=_D, old='pd.concat(the_slices[:i] + the_slices[i + 1 :])', new='pd.concat(the_slices[:i] + the_slices[i:])'),
    dict(name='split: panel grouping only when groups is given (seed C13/1)', rule='C13.R3', file=_D,
         old='                raise BiogemeError(error_msg)\n\n        if self.is_panel():\n            groups = self.panelColumn\n', new='                raise BiogemeError(error_msg)\n            groups = self.panelColumn\n'),
]
NEUTRAL = [
    dict(name='extract_rows via a local', file=_D, old='        reduced_data_frame = self.data.iloc[list(a_range)]', new='        positions = list(a_range)\n        reduced_data_frame = self.data.iloc[positions]'),
]
