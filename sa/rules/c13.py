"""C13 - data-set transformations keep rows and values intact (narrow structural clauses)."""

from __future__ import annotations

import ast
import re

from ..cfg import cfg_of
from ..core import inline_locals, named_args, seq, AnalysisError, call_name, unparse, walk_no_nested
from ..pattern import body_is, find, find_expr, has, has_expr
from ..report import Ctx

#: functions that select rows by integer position (0..n-1): reason
POSITIONAL = {
    ('database', 'Database.sample_with_replacement'): 'random positions drawn in [0, len(data))',
    ('database', 'Database.sample_individual_map_with_replacement'): 'random positions drawn in [0, len(individualMap))',
    ('database', 'Database.extract_rows'): 'caller passes positions, validated against len(data)',
    ('database', 'Database.mdcev_row_split'): 'one database per position',
}


#: obligations whose failure contradicts the property (rule, construct pattern, why); every other failure is 'not recognised'
POSITIVE: list[tuple[str, str, str]] = [
]


def run(ctx: Ctx) -> None:
    ctx.positive_table = list(POSITIVE)
    prog = ctx.prog
    ctx.rule('C13.R1', 'positional discipline: after remove() the row index has gaps, so every selection of rows by integer position uses .iloc on the frame whose '
             'length bounds the positions; .loc / plain [] with positions is a violation')
    ctx.rule('C13.R2', 'remove: the count stored in excludedData and the drop use the same predicate on the same temporary column, which is dropped afterwards; '
             'add_column stores the engine result after the duplicate-name test; scale_column multiplies exactly the named column')
    ctx.rule('C13.R3', 'split: estimation part i is the concatenation of all slices but i, validation part is slice i; grouped slicing selects by membership of the '
             'group id; on panel data the panel column is always the grouping column')
    ctx.rule('C13.R4', 'flattening: a column counts as constant within an individual only if every row of the individual agrees with the first one')
    ctx.not_decided += ['the resulting values (pandas semantics, randomness)', 'the layout of the flattened table']
    D = prog.cls('database', 'Database')
    for (mod, qn), why in POSITIONAL.items():
        f = prog.func(mod, qn)
        subs = [n for n in walk_no_nested(f.node) if isinstance(n, ast.Subscript) and isinstance(n.value, ast.Attribute) and n.value.attr in ('iloc', 'loc', 'iat', 'at')]
        sel = [n for n in subs if unparse(n.value.value) in ('self.data', 'self.individualMap')]
        other = [n for n in subs if unparse(n.value.value).startswith('self.') and n not in sel]
        if not sel and other:
            fr = unparse(other[0].value.value)
            ctx.add('C13.R1', f'{qn}:selection', False, (f.file, other[0].lineno), f'{qn} takes its rows from {fr}, not from self.data: self.data is the table that remove(), add_column(), scale_column() and the sorting done '
                    f'for panel data keep current, {fr} is not kept in step with it - rows that were removed can come back and added columns are missing', fr, positive=True)
            continue
        if not sel:
            plain = [n for n in walk_no_nested(f.node) if isinstance(n, ast.Subscript) and unparse(n.value) in ('self.data', 'self.individualMap')]
            ctx.add('C13.R1', f'{qn}:selection', False, f, f'{qn} no longer selects rows with an indexer ({[unparse(p)[:40] for p in plain]})', 'no indexer')
            continue
        for n in sel:
            frame = unparse(n.value.value)
            ok = n.value.attr == 'iloc'
            ctx.add('C13.R1', f'{qn}:{frame}.{n.value.attr}', ok, (f.file, n.lineno),
                    f'{frame}.{n.value.attr}[{unparse(n.slice)[:50]}] ({why})' + ('' if ok else ': positions are used as labels - wrong rows (or KeyError) once the index has gaps'), f'{frame}.{n.value.attr}', positive=n.value.attr in ('loc', 'at'))
            # the bound of the positions is the length of the same frame
            txt = unparse(f.node)
            rnd = [c for c in ast.walk(n.slice) if isinstance(c, ast.Call) and call_name(c) == 'randint']
            if rnd:
                okb = all(len(c.args) >= 2 and unparse(c.args[0]) == '0' and unparse(c.args[1]) == f'len({frame})' for c in rnd)
            else:
                okb = has(f.node, f'''
_MAX = len({frame}) - 1
if any((_I < 0 or _I > _MAX for _I in a_range)):
    ___
    raise __EXC
''') or has_expr(f.node, f'range(len({frame}))')
            ctx.add('C13.R1', f'{qn}:bound', okb, (f.file, n.lineno), f'positions are bounded by len({frame})' if okb else f'positions are not bounded by len({frame})', 'bound')
    ctx.floor('C13.R1', 8)

    # flattening: a column is the same for all rows of an individual only if EVERY row agrees with the first
    fl = prog.func('tools.database', 'flatten_database')
    avi = next((x for x in ast.walk(fl.node) if isinstance(x, ast.FunctionDef) and x.name == 'are_values_identical'), None)
    if avi is None:
        ctx.add('C13.R4', 'flatten_database:identical', None, fl, 'the test that detects the columns that are constant within an individual is not in the expected form (nested function are_values_identical)', 'identical')
    else:
        col = avi.args.args[0].arg
        rets_ = [r_ for r_ in ast.walk(avi) if isinstance(r_, ast.Return) and r_.value is not None]
        okv = len(rets_) == 1 and unparse(rets_[0].value) in (f'({col}.iloc[0] == {col}).all(0)', f'({col}.iloc[0] == {col}).all()', f'({col} == {col}.iloc[0]).all()', f'{col}.nunique() == 1', f'{col}.nunique() <= 1')
        two = None
        if not okv and len(rets_) == 1 and isinstance(rets_[0].value, ast.Compare) and len(rets_[0].value.ops) == 1:
            l_, r2_ = rets_[0].value.left, rets_[0].value.comparators[0]
            if all(isinstance(z, ast.Subscript) and unparse(z.value) == f'{col}.iloc' and isinstance(z.slice, (ast.Constant, ast.UnaryOp)) for z in (l_, r2_)):
                two = f'are_values_identical returns {unparse(rets_[0].value)}: two rows of the individual are compared, not all of them; a column that differs in between is taken for constant and its other values are lost when the panel is flattened'
        ctx.add('C13.R4', 'flatten_database:identical', okv if (okv or two) else None, (fl.file, avi.lineno), 'a column is kept once per individual only if all its rows agree with the first' if okv else
                (two or 'the test that detects the columns that are constant within an individual is not in the expected form'), 'identical', positive=bool(two))
    f = D.methods['remove']
    b = find(f.node, """
_COL = __NAME
___
self.add_column(_E, _COL)
self.excludedData = len(__COUNTED)
self.data.drop(__DROPPED, inplace=True)
self.data.drop(columns=[_COL], inplace=True)
""")
    if b is None:
        ctx.shape('C13.R2', 'Database.remove', False, f, '', 'a temporary column receives the expression; excludedData = len(rows where it is non-zero); those rows are dropped; the column is dropped')
    else:

        col = b['_COL']
        pred = f'self.data[self.data[{col}] != 0].index'
        counted, dropped = (unparse(inline_locals(f.node, b[k][1])) for k in ('__COUNTED', '__DROPPED'))
        pred = unparse(inline_locals(f.node, ast.parse(pred).body[0].value))
        ok = counted == pred and dropped == pred
        ctx.add('C13.R2', 'Database.remove', ok, f, 'counts and drops the rows where the expression is non-zero, then drops the temporary column' if ok
                else f'remove counts {counted} and drops {dropped}; both must be the rows where the temporary column is non-zero ({pred})', f'{counted} ; {dropped}')
    f = D.methods['add_column']
    cfg = cfg_of(f.node)
    dup = [n for n in walk_no_nested(f.node) if isinstance(n, ast.If) and unparse(n.test) == 'column in self.data.columns' and any(isinstance(x, ast.Raise) for x in n.body)]
    store = [n for n in walk_no_nested(f.node) if isinstance(n, ast.Assign) and unparse(n.targets[0]) == 'self.data[column]']
    ok = len(dup) == 1 and len(store) == 1 and cfg.dominates(cfg.node_of(dup[0]), cfg.node_of(store[0]))
    if ok:
        val = inline_locals(f.node, store[0].value)
        ok = isinstance(val, ast.Call) and call_name(val) == 'get_value_c' and {k: v for k, v in named_args(val).items() if k in ('database', 'aggregation', 'prepare_ids')} == {'database': 'self', 'aggregation': 'False', 'prepare_ids': 'True'}
    ctx.add('C13.R2', 'Database.add_column', ok, f, 'the per-row values of the formula are stored under the new name, an existing name is refused first' if ok else 'add_column changed', 'add_column')
    f = D.methods['scale_column']
    ok = [unparse(s) for s in f.body] == ['self.data[column] *= scale']
    ctx.add('C13.R2', 'Database.scale_column', ok, f, 'exactly the named column is multiplied' if ok else f'scale_column: {[unparse(s) for s in f.body]}', 'scale')
    f = D.methods['define_variable']
    ok = [unparse(s) for s in f.body] == ['self.add_column(expression, name)', 'return Variable(name)']
    ctx.add('C13.R2', 'Database.define_variable', ok, f, 'define_variable adds the column and returns the variable of that name' if ok else 'define_variable changed', 'define')

    f = D.methods['split']
    cfg = cfg_of(f.node)
    txt = unparse(f.node)
    b = find(f.node, """
_EST = []
_VAL = []
for _I, _V in enumerate(_SL):
    _EST.append(pd.concat(_SL[:_I] + _SL[_I + 1:]))
    _VAL.append(_V)
return __RET
""")
    from ..pattern import m_node, _parse
    if b is not None:
        # comprehension variables live in their own scope: matched with fresh bindings
        bb = {'_EST': b['_EST'], '_VAL': b['_VAL']}
        if not m_node(_parse('[EstimationValidation(estimation=_E, validation=_W) for _E, _W in zip(_EST, _VAL)]')[0].value, b['__RET'][1], bb):
            b = None
    else:
        # the same folds built in one comprehension
        b = find(f.node, 'return [EstimationValidation(estimation=pd.concat(_SL[:_I] + _SL[_I + 1:]), validation=_V) for _I, _V in enumerate(_SL)]')
    ctx.add('C13.R3', 'Database.split:folds', b is not None, f, 'estimation part i = all slices but i, validation part = slice i, paired fold by fold' if b is not None else 'construction or pairing of the folds changed', 'folds')
    sl = b['_SL'] if b else '_SL'
    ok = has(f.node, f"""
if groups is None:
    ___
else:
    _IDS = self.data[groups].unique()
    ___
    _SIDS = np.array_split(_IDS, slices)
    {sl} = [self.data[self.data[groups].isin(_X)] for _X in _SIDS]
""")
    ctx.add('C13.R3', 'Database.split:groups', ok, f, 'grouped slices contain all rows of the selected group ids' if ok else 'grouped slicing changed', 'groups')
    ok = has(f.node, f"""
if groups is None:
    _SH = self.data.sample(frac=1)
    {sl} = np.array_split(_SH, slices)
else:
    ___
""")
    lost = None
    if not ok:
        # positive: blocks of len // slices rows taken by position leave the last len % slices rows in no slice
        for pat in ('[_SH.iloc[_I * _S:(_I + 1) * _S] for _I in range(slices)]', '[_SH[_I * _S:(_I + 1) * _S] for _I in range(slices)]'):
            for hit in find_expr(f.node, pat):
                size = [a for a in walk_no_nested(f.node) if isinstance(a, ast.Assign) and unparse(a.targets[0]) == hit['_S']]
                if len(size) == 1 and re.fullmatch(r'(len\((\w+)\)|(\w+)\.shape\[0\]) // slices', unparse(size[0].value)):
                    lost = f'{unparse(hit["__node__"])[:90]} with {unparse(size[0])}'
    if lost:
        ctx.add('C13.R3', 'Database.split:rows', False, f, f'the slices are blocks of len // slices rows taken by position ({lost}): when the number of rows is not a multiple of `slices` the last len % slices rows '
                'are in no validation part and in no estimation part - the folds do not contain every row once', 'rows', positive=True)
    else:
        ctx.add('C13.R3', 'Database.split:rows', ok, f, 'ungrouped slices partition a permutation of all rows' if ok else 'ungrouped slicing changed', 'rows')
    # panel: groups = panelColumn dominates the choice between grouped and ungrouped slicing
    setg = [n for n in walk_no_nested(f.node) if isinstance(n, ast.Assign) and unparse(n.targets[0]) == 'groups' and unparse(n.value) == 'self.panelColumn']
    choose = [n for n in walk_no_nested(f.node) if isinstance(n, ast.If) and unparse(n.test) == 'groups is None']
    ok = False
    if len(setg) == 1 and len(choose) == 1:
        guard = [n for n in walk_no_nested(f.node) if isinstance(n, ast.If) and setg[0] in n.body]
        ok = len(guard) == 1 and unparse(guard[0].test) == 'self.is_panel()' and cfg.dominates(cfg.node_of(guard[0]), cfg.node_of(choose[0])) and seq(setg[0]) < seq(choose[0])
    narrowed = None
    if not ok and len(setg) == 1:
        # the assignment is there but under a stronger condition than "the data are panel data"
        guard = [n for n in walk_no_nested(f.node) if isinstance(n, ast.If) and any(x is setg[0] for x in ast.walk(n))]
        tests = [unparse(v) for g_ in guard for v in (g_.test.values if isinstance(g_.test, ast.BoolOp) and isinstance(g_.test.op, ast.And) else [g_.test])]
        extra = [t for t in tests if t != 'self.is_panel()']
        if 'self.is_panel()' in tests and extra:
            narrowed = f'`groups = self.panelColumn` is executed only when `{" and ".join(extra)}` also holds: on panel data, a call without `groups` shuffles single rows and separates the observations of one individual'
    ctx.add('C13.R3', 'Database.split:panel', ok if (ok or narrowed) else None, f, 'on panel data the rows of one individual are never separated (groups = panel column whenever is_panel())' if ok else
            (narrowed or 'the way the panel column becomes the grouping column is not in the expected form'), 'panel', positive=bool(narrowed))


_D = 'src/biogeme/database.py'
MUTANTS = [
    dict(name='extract_rows uses .loc (seed C13/2)', rule='C13.R1', file=_D, old='        reduced_data_frame = self.data.iloc[list(a_range)]', new='        reduced_data_frame = self.data.loc[list(a_range)]'),
    dict(name='bootstrap sample uses .loc', rule='C13.R1', file=_D, old='        sample = self.data.iloc[np.random.randint(0, len(self.data), size=size)]', new='        sample = self.data.loc[np.random.randint(0, len(self.data), size=size)]'),
    dict(name='mdcev_row_split uses .loc', rule='C13.R1', file=_D, old='pandas_database=self.data.iloc[[i]])', new='pandas_database=self.data.loc[[i]])'),
    dict(name='panel bootstrap bounded by the number of rows', rule='C13.R1', file=_D,
         old='            np.random.randint(0, len(self.individualMap), size=size)', new='            np.random.randint(0, self.data.shape[0], size=size)'),
    dict(name='remove counts with == 0', rule='C13.R2', file=_D, old='        self.excludedData = len(self.data[self.data[column_name] != 0].index)', new='        self.excludedData = len(self.data[self.data[column_name] == 0].index)'),
    dict(name='remove keeps the temporary column', rule='C13.R2', file=_D, old='        self.data.drop(columns=[column_name], inplace=True)\n', new=''),
    dict(name='add_column overwrites an existing column', rule='C13.R2', file=_D,
         old="        if column in self.data.columns:\n            raise ValueError(\n                f'Column {column} already exists in the database {self.name}'\n            )\n", new=''),
    dict(name='split: estimation part includes slice i', rule='C13.R3', file=_D, old='pd.concat(the_slices[:i] + the_slices[i + 1 :])', new='pd.concat(the_slices[:i] + the_slices[i:])'),
    dict(name='split: panel grouping only when groups is given (seed C13/1)', rule='C13.R3', file=_D,
         old='                raise BiogemeError(error_msg)\n\n        if self.is_panel():\n            groups = self.panelColumn\n', new='                raise BiogemeError(error_msg)\n            groups = self.panelColumn\n'),
]
NEUTRAL = [
    dict(name='extract_rows via a local', file=_D, old='        reduced_data_frame = self.data.iloc[list(a_range)]', new='        positions = list(a_range)\n        reduced_data_frame = self.data.iloc[positions]'),
]
