"""C17 - specification helpers equal their documented closed forms (formula normal form)."""

from __future__ import annotations

import ast
import math
import re

import sympy as sp

from ..core import inline_locals, AnalysisError, call_name, unparse, walk_no_nested
from ..dsl import ELEM, EQ, GE, GT, LE, LT, NE, Dsl
from ..pattern import _parse, body_is, find, find_expr, has, has_expr, m_node
from ..report import Ctx
from ..sym import equal

SQRT2PI = sp.sqrt(2 * sp.pi)
HALFLOG2PI = sp.log(2 * sp.pi) / 2
CONSTS = {math.sqrt(2 * math.pi): SQRT2PI, 0.5 * math.log(2 * math.pi): HALFLOG2PI}


def _same(a, b) -> bool:
    try:
        if equal(a, b):
            return True
    except Exception:
        pass
    d = sp.simplify(sp.expand(sp.expand_log(a - b, force=True)))
    return d == 0


class _Undefined(Exception):
    pass


_IND = {LT: lambda d: d < 0, LE: lambda d: d <= 0, EQ: lambda d: d == 0, GT: lambda d: d > 0, GE: lambda d: d >= 0, NE: lambda d: d != 0}


def _at(e, point: dict):
    """value of a translated formula at a point (exact rational coordinates): indicator atoms by their truth there, ELEM by the
    branch it selects there; None where the formula is not a finite real number"""

    def go(t):
        if t.func in _IND:
            d = go(t.args[0]) - go(t.args[1])
            try:
                return sp.Integer(1 if bool(_IND[t.func](d)) else 0)
            except TypeError:
                raise _Undefined
        if t.func == ELEM:
            sel = go(t.args[0])
            for k, v in zip(t.args[1::2], t.args[2::2]):
                try:
                    if bool(sp.Eq(go(k), sel)):
                        return go(v)
                except TypeError:
                    raise _Undefined
            raise _Undefined
        if not t.args:
            return t
        return t.func(*[go(a) for a in t.args])

    try:
        v = sp.N(go(sp.sympify(e).subs(point, simultaneous=True)), 30)
    except (_Undefined, ZeroDivisionError, ValueError, TypeError, AttributeError, RecursionError):
        return None
    if not getattr(v, 'is_Float', False) and not getattr(v, 'is_Integer', False) and not getattr(v, 'is_Rational', False):
        return None
    if v.is_finite is False or v.is_real is False:
        return None
    return v


#: two formulas are told apart only by a point where their values differ by more than this (relative): the precision to which the
#: numeric literals of the source stand for the mathematical constants
TOL = sp.Float('1e-8')


def _grid(**axes):
    import itertools

    keys = list(axes)
    return [dict(zip(keys, combo)) for combo in itertools.product(*[axes[k] for k in keys])]


def _compare(got, want, points: list[dict]):
    """(True, None) when the two formulas are proved equal; (False, witness) when a point is found where both are defined and
    their values differ; (None, None) when neither (the verdict stays open)"""
    try:
        if _same(got, want):
            return True, None
    except Exception:  # noqa
        pass
    free = {str(x) for x in sp.sympify(got).free_symbols | sp.sympify(want).free_symbols}
    for pt in points:
        if not free <= set(pt):
            return None, None
        sub = {sp.Symbol(k, real=True): sp.nsimplify(v) for k, v in pt.items()}
        a, b = _at(got, sub), _at(want, sub)
        if a is None or b is None:
            continue
        if abs(a - b) > TOL * max(1, abs(b)):
            return False, ', '.join(f'{k} = {v}' for k, v in pt.items()) + f': {sp.N(a, 8)} instead of {sp.N(b, 8)}'
    return None, None


def _verdict(ctx: Ctx, rule: str, construct: str, got, want, points, where, head: str, textbook: str) -> None:
    """the obligation `got == want`: discharged by a symbolic proof, VIOLATED by a point where the two values differ (a fact
    about the function whatever the way it is written), left open otherwise"""
    ok, wit = _compare(got, want, points)
    try:
        shown = sp.simplify(got)
    except Exception:  # noqa
        shown = got
    if ok:
        ctx.add(rule, construct, True, where, f'{head} = {shown}')
    elif ok is False:
        ctx.add(rule, construct, False, where, f'{head} = {shown} ; {textbook}: {want} ; at {wit}', str(shown), positive=True)
    else:
        ctx.add(rule, construct, None, where, f'{head} = {shown} could not be compared with {textbook} {want}: neither proved equal nor told apart at the sample points', str(shown))


Q = sp.Rational

#: obligations whose failure contradicts the property (rule, construct pattern, why); every other failure is 'not recognised'.
#: The formula rules (R2, R5) do not appear here: each of them is positive only with a point where the translated formula and
#: the documented one take different values (see _verdict); R1 only with a literal that is wrong at its printed precision.
POSITIVE: list[tuple[str, str, str]] = []


def _threshold_terms(cfg, func: ast.AST, expr: ast.expr, at, depth: int = 8) -> list:
    """the values an expression of piecewise_variables can have, each as a sympy combination of the symbols thresholds[k] (k a
    non-negative literal), following the locals through their reaching definitions (copies, tuple unpacking, an element of a
    local list / tuple display); None for a value that is not such a combination.  The list parameter `thresholds` must
    never be rebound or modified in the function."""

    def untouched() -> bool:
        for n in ast.walk(func):
            if isinstance(n, ast.Name) and n.id == 'thresholds' and isinstance(n.ctx, (ast.Store, ast.Del)):
                return False
            if isinstance(n, (ast.Subscript, ast.Attribute)) and isinstance(n.ctx, (ast.Store, ast.Del)) and isinstance(n.value, ast.Name) and n.value.id == 'thresholds':
                return False
            if isinstance(n, ast.Call) and isinstance(n.func, ast.Attribute) and isinstance(n.func.value, ast.Name) and n.func.value.id == 'thresholds' \
                    and n.func.attr in ('append', 'extend', 'insert', 'pop', 'remove', 'clear', 'sort', 'reverse', '__setitem__', '__delitem__'):
                return False
        return True

    def lit_index(ix):
        v = ix.value if isinstance(ix, ast.Constant) else None
        return v if isinstance(v, int) and not isinstance(v, bool) and v >= 0 else None

    conds = _branch_conditions(cfg, func)

    def feasible(df, node) -> bool:
        """False when the definition is made under a branch condition whose opposite holds at the use (the same test on names that
        have the same definitions at both places, outside any loop): the value cannot be the one read there"""
        for (t, pol, ifn, pure) in conds.get(df.node, ()):
            for (t2, pol2, ifn2, pure2) in conds.get(node, ()):
                if t == t2 and pol != pol2 and pure and pure2 and _same_reaching(cfg, func, ifn, ifn2):
                    return False
        return True

    def go(e, node, d) -> list:
        if d == 0 or node is None:
            return [None]
        if isinstance(e, ast.Constant) and isinstance(e.value, (int, float)) and not isinstance(e.value, bool):
            return [sp.nsimplify(e.value)]
        if isinstance(e, ast.Call) and call_name(e) in ('Numeric', 'float') and len(e.args) == 1 and not e.keywords:
            return go(e.args[0], node, d)
        if isinstance(e, ast.Subscript) and isinstance(e.value, ast.Name) and e.value.id == 'thresholds':
            k = lit_index(e.slice)
            return [sp.Symbol(f'thresholds[{k}]')] if k is not None else [None]
        if isinstance(e, ast.Subscript) and isinstance(e.value, ast.Name):
            # an element of a local display: xs = [a, b] ... xs[0]
            k = lit_index(e.slice)
            ds = cfg.reaching(node, e.value.id)
            if k is None or not ds or _mutated(func, e.value.id):
                return [None]
            out = []
            for df in ds:
                if df.kind == 'assign' and isinstance(df.value, (ast.List, ast.Tuple)) and k < len(df.value.elts) and not any(isinstance(x, ast.Starred) for x in df.value.elts):
                    out += go(df.value.elts[k], df.node, d - 1)
                else:
                    out.append(None)
            return out
        if isinstance(e, ast.Name):
            ds = [df for df in cfg.reaching(node, e.id) if feasible(df, node)]
            if not ds:
                return [None]
            out = []
            for df in ds:
                if df.kind == 'assign' and df.value is not None:
                    out += go(df.value, df.node, d - 1)
                elif df.kind == 'unpack' and isinstance(df.value, (ast.Tuple, ast.List)) and df.index is not None and isinstance(df.target, ast.Name) \
                        and df.index < len(df.value.elts) and not any(isinstance(x, ast.Starred) for x in df.value.elts) and _flat_unpack(cfg, df):
                    out += go(df.value.elts[df.index], df.node, d - 1)
                else:
                    out.append(None)
            return out
        if isinstance(e, ast.UnaryOp) and isinstance(e.op, (ast.USub, ast.UAdd)):
            return [None if v is None else (-v if isinstance(e.op, ast.USub) else v) for v in go(e.operand, node, d)]
        if isinstance(e, ast.BinOp) and isinstance(e.op, (ast.Add, ast.Sub, ast.Mult)):
            ls, rs = go(e.left, node, d), go(e.right, node, d)
            f = {ast.Add: lambda p, q: p + q, ast.Sub: lambda p, q: p - q, ast.Mult: lambda p, q: p * q}[type(e.op)]
            return [None if (p is None or q is None) else f(p, q) for p in ls for q in rs]
        return [None]

    if not untouched():
        return [None]
    return go(expr, at, depth)


def _canon_test(cfg, test: ast.expr, node, depth: int = 4):
    """(text, polarity, pure) of a branch test: `not T` and `is not` fold into the polarity, `None is x` reads `x is None`, a name
    that is a plain copy (one reaching assignment of a name or of an element of a name at a literal index) reads as what it
    copies; pure when the test only reads names, constants and elements at literal indices (nothing that can change between
    two evaluations while the names keep their definitions)"""
    pol = True
    while isinstance(test, ast.UnaryOp) and isinstance(test.op, ast.Not):
        test, pol = test.operand, not pol

    def copy_of(e, at, d):
        if isinstance(e, ast.Name) and d > 0 and at is not None:
            ds = cfg.reaching(at, e.id)
            if len(ds) == 1 and ds[0].kind == 'assign' and ds[0].value is not None:
                v = ds[0].value
                if isinstance(v, ast.Name) or (isinstance(v, ast.Subscript) and isinstance(v.value, ast.Name) and isinstance(v.slice, ast.Constant)):
                    # the copied expression must mean the same at the test as at the copy
                    names = [x.id for x in ast.walk(v) if isinstance(x, ast.Name)]
                    if all({q.node for q in cfg.reaching(ds[0].node, nm)} == {q.node for q in cfg.reaching(at, nm)} for nm in names):
                        return copy_of(v, ds[0].node, d - 1) if isinstance(v, ast.Name) else v
        return e

    pure = True
    if isinstance(test, ast.Compare) and len(test.ops) == 1:
        l, r, op = copy_of(test.left, node, depth), copy_of(test.comparators[0], node, depth), test.ops[0]
        if isinstance(op, (ast.Is, ast.IsNot, ast.Eq, ast.NotEq)) and isinstance(l, ast.Constant) and not isinstance(r, ast.Constant):
            l, r = r, l
        if isinstance(op, (ast.IsNot, ast.NotEq)):
            pol = not pol
            op = ast.Is() if isinstance(op, ast.IsNot) else ast.Eq()
        canon = ast.Compare(left=l, ops=[op], comparators=[r])
    else:
        canon = copy_of(test, node, depth)
    if not (isinstance(canon, ast.Compare) and isinstance(canon.ops[0], (ast.Is, ast.Eq)) and isinstance(canon.comparators[0], ast.Constant)):
        pure = False  # only a comparison with a literal: the value of a name that keeps its definition cannot change under it
    for n in ast.walk(canon):
        if isinstance(n, ast.Subscript):
            if not (isinstance(n.value, ast.Name) and isinstance(n.slice, ast.Constant) and (n.value.id == 'thresholds' or not _mutated(cfg.func, n.value.id))):
                pure = False  # (`thresholds` itself is checked never to be modified before any of this is used)
        elif not isinstance(n, (ast.Name, ast.Constant, ast.Compare, ast.cmpop, ast.expr_context, ast.UnaryOp, ast.unaryop)):
            pure = False
    return unparse(canon), pol, pure, canon


def _branch_conditions(cfg, func: ast.AST) -> dict:
    """cfg node of a statement -> the branch conditions it is executed under: (canonical test, polarity, cfg node of the `if`,
    pure); only `if` statements outside any loop / try / with (a branch of a loop body is taken once per iteration)"""
    out: dict = {}

    def block(body, under, plain):
        for st in body:
            n = cfg.node_of(st)
            if n is not None and under:
                out.setdefault(n, []).extend(under)
            if isinstance(st, ast.If):
                ifn = cfg.node_of(st)
                if plain and ifn is not None:
                    t, pol, pure, canon = _canon_test(cfg, st.test, ifn)
                    names = tuple(sorted({x.id for x in ast.walk(canon) if isinstance(x, ast.Name)}))
                    block(st.body, under + [(t, pol, (ifn, names), pure)], plain)
                    block(st.orelse, under + [(t, not pol, (ifn, names), pure)], plain)
                else:
                    block(st.body, under, plain)
                    block(st.orelse, under, plain)
            elif isinstance(st, (ast.FunctionDef, ast.AsyncFunctionDef, ast.ClassDef)):
                continue
            else:
                for fld in ('body', 'orelse', 'finalbody'):
                    sub = getattr(st, fld, None)
                    if isinstance(sub, list) and sub and isinstance(sub[0], ast.stmt):
                        block(sub, under, False)
                for h in getattr(st, 'handlers', []) or []:
                    block(h.body, under, False)

    block(func.body, [], True)
    return out


def _same_reaching(cfg, func: ast.AST, a, b) -> bool:
    """the names read by the two (textually equal) tests have the same definitions at both, and the containers they index are
    never modified in the function: the two tests have the same value"""
    (na, names_a), (nb, names_b) = a, b
    if names_a != names_b:
        return False
    for nm in names_a:
        if {(q.node, q.kind) for q in cfg.reaching(na, nm)} != {(q.node, q.kind) for q in cfg.reaching(nb, nm)}:
            return False
        if any(isinstance(n, ast.Name) and n.id == nm and isinstance(n.ctx, ast.Del) for n in ast.walk(func)):
            return False
    return True


def _flat_unpack(cfg, df) -> bool:
    """the unpacking `a, b = x, y` that defines df has a flat target (position = index of the element)"""
    st = cfg.stmt.get(df.node) if hasattr(cfg, 'stmt') else None
    if not isinstance(st, ast.Assign) or len(st.targets) != 1 or not isinstance(st.targets[0], (ast.Tuple, ast.List)):
        return False
    elts = st.targets[0].elts
    return all(isinstance(x, ast.Name) for x in elts) and isinstance(st.value, (ast.Tuple, ast.List)) and len(elts) == len(st.value.elts)


def _mutated(func: ast.AST, name: str) -> bool:
    """the local container `name` is modified (element store, in-place method, augmented assignment) or handed to a call"""
    for n in ast.walk(func):
        if isinstance(n, (ast.Subscript, ast.Attribute)) and isinstance(n.ctx, (ast.Store, ast.Del)) and isinstance(n.value, ast.Name) and n.value.id == name:
            return True
        if isinstance(n, ast.AugAssign) and isinstance(n.target, ast.Name) and n.target.id == name:
            return True
        if isinstance(n, ast.Call):
            if isinstance(n.func, ast.Attribute) and isinstance(n.func.value, ast.Name) and n.func.value.id == name and n.func.attr not in ('index', 'count', 'copy'):
                return True
            if any(isinstance(x, ast.Name) and x.id == name for a in list(n.args) + [k.value for k in n.keywords] for x in [a.value if isinstance(a, ast.Starred) else a]):
                return True  # the container itself is an argument (reading one of its elements in an argument is harmless)
    return False


def _param_stores(func: ast.FunctionDef, target: str, param: str):
    """(stores, flows, escapes) for the attribute `target` and the parameter `param` of a method:
    stores  - the assignments to the attribute;
    flows   - those whose stored value can depend on the parameter: through the data (the value, followed backwards through the
              reaching definitions of every name it reads, reads the parameter) or through the control (the store is made under a
              test that reads the parameter, other than in the branch taken when the parameter is None);
    escapes - other ways the parameter can reach the object: it (or a value computed from it) is an argument of a call that also
              receives self or is a method of self, setattr / __dict__ writes, a store through another name of self."""
    from ..cfg import cfg_of

    cfg = cfg_of(func)
    selfname = func.args.args[0].arg if func.args.args else 'self'

    def reads_param(e: ast.AST, node, seen: set) -> bool:
        for n in ast.walk(e):
            if not isinstance(n, ast.Name) or not isinstance(n.ctx, ast.Load):
                continue
            if n.id == param:
                for df in (cfg.reaching(node, param) if node is not None else []):
                    if df.kind == 'param':
                        return True
                    if (df.node, param) not in seen:
                        seen.add((df.node, param))
                        if df.value is None or reads_param(df.value, df.node, seen):
                            return True
                if node is None:
                    return True
                continue
            for df in (cfg.reaching(node, n.id) if node is not None else []):
                if (df.node, n.id) in seen:
                    continue
                seen.add((df.node, n.id))
                if df.kind == 'param':
                    continue
                if df.value is not None and reads_param(df.value, df.node, seen):
                    return True
        return False

    def is_none_test(t: ast.expr, node):
        """+1: true exactly when the parameter is None, -1: exactly when it is not None, 0: another test"""
        if isinstance(t, ast.UnaryOp) and isinstance(t.op, ast.Not):
            return -is_none_test(t.operand, node)
        if isinstance(t, ast.Compare) and len(t.ops) == 1 and isinstance(t.ops[0], (ast.Is, ast.IsNot)):
            l, r = t.left, t.comparators[0]
            if isinstance(l, ast.Constant) and l.value is None:
                l, r = r, l
            if isinstance(r, ast.Constant) and r.value is None and isinstance(l, ast.Name):
                os_ = cfg.origins(l, node) if node is not None else [l]
                if all(isinstance(o, ast.Name) and o.id == param for o in os_) and all(df.kind == 'param' for df in cfg.reaching(node, param)):
                    return 1 if isinstance(t.ops[0], ast.Is) else -1
        return 0

    parents: dict[int, tuple[ast.AST, str]] = {}
    for n in ast.walk(func):
        for fld in ('body', 'orelse', 'finalbody', 'handlers'):
            for ch in getattr(n, fld, []) if isinstance(getattr(n, fld, None), list) else []:
                parents[id(ch)] = (n, fld)

    def control_flow(st: ast.stmt) -> bool:
        cur = st
        while id(cur) in parents:
            par, fld = parents[id(cur)]
            test = par.test if isinstance(par, (ast.If, ast.While)) else par.iter if isinstance(par, (ast.For, ast.AsyncFor)) else None
            if test is not None:
                node = cfg.node_of(par)
                if node is None:
                    node = cfg.node_of(test)
                if reads_param(test, node, set()):
                    k = is_none_test(test, node) if isinstance(par, ast.If) else 0
                    default_branch = (k == 1 and fld == 'body') or (k == -1 and fld == 'orelse')
                    if not default_branch:
                        return True
            cur = par
        return False

    stores, flows, escapes = [], [], []
    for n in walk_no_nested(func):
        tgt = val = None
        if isinstance(n, ast.Assign) and any(unparse(t) == target for t in n.targets):
            tgt, val = n, n.value
        elif isinstance(n, ast.AnnAssign) and n.value is not None and unparse(n.target) == target:
            tgt, val = n, n.value
        if tgt is not None:
            stores.append(tgt)
            node = cfg.node_of(tgt)
            if node is None or reads_param(val, node, set()) or control_flow(tgt):
                flows.append(tgt)
    attr = target.split('.', 1)[1] if '.' in target else target
    for n in ast.walk(func):
        if isinstance(n, (ast.FunctionDef, ast.AsyncFunctionDef, ast.Lambda)) and n is not func:
            escapes.append(n)  # a nested function can store what it likes
        elif isinstance(n, ast.Call):
            cn = call_name(n) or ''
            args = list(n.args) + [k.value for k in n.keywords]
            on_self = isinstance(n.func, ast.Attribute) and any(isinstance(x, ast.Name) and x.id == selfname for x in ast.walk(n.func.value))
            with_self = any(isinstance(x, ast.Name) and x.id == selfname for a in args for x in ast.walk(a))
            if cn.split('.')[-1] in ('setattr', '__setattr__', 'update', 'vars') and (with_self or on_self):
                escapes.append(n)
            elif on_self or with_self:
                node = cfg.node_of(n)
                if any(node is None or reads_param(a, node, set()) for a in args):
                    escapes.append(n)
        elif isinstance(n, (ast.Tuple, ast.List)) and isinstance(getattr(n, 'ctx', None), ast.Store) and any(unparse(x) == target for x in n.elts):
            escapes.append(n)  # self.reference among the targets of an unpacking
        elif isinstance(n, ast.Assign) and isinstance(n.value, ast.Name) and n.value.id == selfname:
            escapes.append(n)  # another name for self
        elif isinstance(n, ast.Attribute) and isinstance(n.ctx, ast.Store) and n.attr == attr and unparse(n) != target:
            escapes.append(n)
        elif isinstance(n, (ast.With, ast.For, ast.NamedExpr)) and target in unparse(getattr(n, 'target', None) or n):
            if isinstance(n, ast.For) and unparse(n.target) == target:
                escapes.append(n)
    return stores, flows, escapes


def run(ctx: Ctx) -> None:
    ctx.positive_table = list(POSITIVE)
    prog = ctx.prog
    ctx.rule('C17.R1', 'constants: the numeric literals standing for sqrt(2 pi) and (1/2) ln(2 pi) are correct to their printed precision')
    ctx.rule('C17.R2', 'Box-Cox: the regular branch is (x^l - 1)/l, the near-zero branch is the degree-3 Maclaurin polynomial of it in l, the switch is a symmetric interval around 0, x = 0 maps to 0')
    ctx.rule('C17.R3', 'code/expression twins of the segmentation: the generated code names, bounds, values, status and terms are those of the generated expression')
    ctx.rule('C17.R4', 'nested-logit correlation: 1 - 1/mu_m^2 (1 - mu^2/mu_m^2 with a scale) assigned symmetrically to pairs inside one nest only, identity elsewhere')
    ctx.rule('C17.R5', 'density / distribution helpers equal the textbook formulas (sympy normal form of the returned DSL expression; comparisons as indicator atoms): '
             'normal, lognormal, uniform, triangular pdf, logistic cdf, normal log density of the regression likelihood')
    ctx.rule('C17.R6', 'piecewise: variable i is max(0, min(x - t_i, t_i+1 - t_i)) (open ends handled), the formula multiplies beta_i with variable i, and the plain '
             'function measures the first segment from the first threshold')
    ctx.not_decided += ['integration of the densities to one (follows from the closed forms, not re-derived)', 'numeric agreement of piecewise_function and piecewise_formula beyond the structural clause']
    D = 'distributions'
    x, mu, s, a, b, c = sp.symbols('x mu s a b c', real=True)

    def dsl(mod, name):
        d = Dsl(prog.func(mod, name), CONSTS, prog)
        if d.ret is None:
            raise AnalysisError(f'C17: {name} returns nothing')
        return d

    # densities
    cases = {
        'normalpdf': (sp.exp(-((x - mu) ** 2) / (2 * s**2)) / (s * SQRT2PI), _grid(x=[Q(-3, 2), 0, Q(2, 3), Q(7, 3)], mu=[Q(-1, 2), 0, Q(5, 4)], s=[Q(1, 2), 1, Q(7, 3)])),
        'lognormalpdf': (LT(0, x) * sp.exp(-((sp.log(x) - mu) ** 2) / (2 * s**2)) / (x * s * SQRT2PI), _grid(x=[Q(1, 3), 1, Q(5, 2), 7], mu=[Q(-1, 2), 0, Q(5, 4)], s=[Q(1, 2), 1, Q(7, 3)])),
        'uniformpdf': (LE(a, x) * LE(x, b) / (b - a), [dict(a=lo, b=hi, x=v) for lo, hi in ((-1, 2), (Q(1, 2), 3)) for v in (lo - 1, lo, (lo + hi) / Q(2), hi, hi + 1)]),
        'triangularpdf': (LE(a, x) * LT(x, c) * 2 * (x - a) / ((b - a) * (c - a)) + EQ(x, c) * 2 / (b - a) + LT(c, x) * LE(x, b) * 2 * (b - x) / ((b - a) * (b - c)),
                          [dict(a=lo, c=mid, b=hi, x=v) for lo, mid, hi in ((-1, Q(1, 2), 2), (0, 1, 5), (Q(1, 3), 2, Q(9, 4)))
                           for v in (lo - 1, lo, (lo + mid) / Q(2), (2 * lo + mid) / Q(3), mid, (mid + hi) / Q(2), (mid + 2 * hi) / Q(3), hi, hi + 1)]),
        'logisticcdf': (1 / (1 + sp.exp(-(x - mu) / s)), _grid(x=[Q(-3, 2), 0, Q(2, 3), Q(7, 3)], mu=[Q(-1, 2), 0, Q(5, 4)], s=[Q(1, 2), 1, Q(7, 3)])),
    }
    evaluated = {}
    for name, (want, points) in cases.items():
        d = dsl(D, name)
        evaluated[name] = d
        # terms that are explicitly zero (indicator * 0) vanish in the normal form
        _verdict(ctx, 'C17.R5', f'distributions.{name}', d.ret, want, points, d.f, name, 'textbook')
    meas, model, sigma = sp.symbols('meas model sigma', real=True)
    d = dsl('loglikelihood', 'loglikelihoodregression')
    evaluated['loglikelihoodregression'] = d
    want = -((meas - model) / sigma) ** 2 / 2 - sp.log(sigma**2) / 2 - HALFLOG2PI
    _verdict(ctx, 'C17.R5', 'loglikelihoodregression', d.ret, want, _grid(meas=[-1, Q(1, 3), 2], model=[0, Q(1, 2), 3], sigma=[Q(1, 2), 1, 3, -2]), d.f, 'log density', 'normal log density')
    # constants: the float literals that enter the formula (read in the function, in a helper it calls or in a module-level constant)
    for name, want, label in (('normalpdf', math.sqrt(2 * math.pi), 'sqrt(2 pi)'), ('lognormalpdf', math.sqrt(2 * math.pi), 'sqrt(2 pi)'), ('loglikelihoodregression', 0.5 * math.log(2 * math.pi), '(1/2) ln(2 pi)')):
        d = evaluated[name]
        lits = sorted({t for t in d.literals if abs(t[0] - want) < 0.01})

        def exact(v):
            digits = len(repr(v).split('e')[0].split('.')[-1])
            return 'e' not in repr(v) and abs(v - want) <= 0.5 * 10 ** (-digits) * 1.0000001

        wrong = [t for t in lits if not exact(t[0])]
        if wrong:
            ctx.add('C17.R1', f'{name}:constant', False, (wrong[0][1], wrong[0][2]), f'{wrong[0][0]} stands for {label} = {want:.12g} - wrong at the printed precision', str(wrong[0][0]), positive=True)
        elif lits:
            ctx.add('C17.R1', f'{name}:constant', True, (lits[0][1], lits[0][2]), f'{lits[0][0]} stands for {label} = {want:.12g}', str(lits[0][0]))
        else:
            ctx.add('C17.R1', f'{name}:constant', None, d.f, f'no numeric literal standing for {label} = {want:.12g} enters the formula of {name}: the constant is not written in the expected form', '')
    lr = prog.func('loglikelihood', 'likelihoodregression')
    ok = [unparse(s_) for s_ in lr.body] == ['return exp(loglikelihoodregression(meas, model, sigma))']
    ctx.add('C17.R5', 'likelihoodregression', ok, lr, 'likelihood = exp(log likelihood) with the same arguments' if ok else 'likelihoodregression is no longer exp(loglikelihoodregression(meas, model, sigma))', 'twin')
    ml = prog.func('loglikelihood', 'mixedloglikelihood')
    ok = body_is(ml.body, "_L = MonteCarlo(prob)\nreturn log(_L)") is not None or body_is(ml.body, "return log(MonteCarlo(prob))") is not None
    ctx.add('C17.R5', 'mixedloglikelihood', ok, ml, 'log of the Monte-Carlo mean of the probability' if ok else 'mixedloglikelihood changed', 'mixed')
    ctx.floor('C17.R5', 8)

    # Box-Cox
    bc = dsl('models.boxcox', 'boxcox')
    if 'x' not in bc.env or 'ell' not in bc.env:
        raise AnalysisError('C17: anchor missing: boxcox(x, ell)')
    xx, ell = bc.env['x'], bc.env['ell']
    # the structure is read off the returned selection: Elem({0: Elem({0: regular, 1: series}, switch), 1: 0}, x == 0)
    reg = mac = cz = smooth = None
    r = bc.ret
    if getattr(r, 'func', None) == ELEM and len(r.args) == 5:
        items = {r.args[1]: r.args[2], r.args[3]: r.args[4]}
        inner = items.get(sp.Integer(0))
        if getattr(inner, 'func', None) == ELEM and len(inner.args) == 5:
            smooth = inner
            cz = inner.args[0]
            it2 = {inner.args[1]: inner.args[2], inner.args[3]: inner.args[4]}
            reg, mac = it2.get(sp.Integer(0)), it2.get(sp.Integer(1))
    if reg is None or mac is None or cz is None:
        raise AnalysisError(f'C17: anchor missing: boxcox no longer returns Elem({{0: Elem({{0: regular, 1: series}}, switch), 1: 0}}, x == 0): {r}')
    bpts = _grid(x=[Q(1, 2), 2, 3], ell=[-1, Q(-1, 3), Q(1, 2), 2])
    _verdict(ctx, 'C17.R2', 'boxcox:regular', reg, (xx**ell - 1) / ell, bpts, bc.f, 'regular branch', 'expected (x^l - 1)/l')
    Lx = sp.Symbol('Lx', real=True)
    series = sp.expand(sp.series((sp.exp(ell * Lx) - 1) / ell, ell, 0, 4).removeO())
    got = sp.expand(sp.expand_log(mac, force=True).subs(sp.log(xx), Lx))
    if xx in got.free_symbols:
        got, series = mac, series.subs(Lx, sp.log(xx))
    _verdict(ctx, 'C17.R2', 'boxcox:maclaurin', got, series, _grid(Lx=[-1, Q(1, 2), 2], x=[Q(1, 2), 2, 3], ell=[-1, Q(-1, 3), Q(1, 2), 2]), bc.f, 'near-zero branch', 'the Maclaurin polynomial of (x^l-1)/l is')
    eps = sp.Rational(1, 100000)
    _verdict(ctx, 'C17.R2', 'boxcox:switch', cz, LT(ell, eps) * LT(-eps, ell), _grid(x=[2], ell=[-1, -2 * eps, -eps, -eps / 2, 0, eps / 2, eps, 2 * eps, 1]), bc.f, 'switch', 'expected the symmetric interval |l| < 1e-5, i.e.')
    ok = smooth is not None and smooth == ELEM(cz, 0, reg, 1, mac) and bc.ret == ELEM(EQ(xx, 0), 0, smooth, 1, 0)
    ctx.add('C17.R2', 'boxcox:selection', ok, bc.f, 'series iff close to zero; 0 iff x = 0' if ok else f'selection of the branches changed: {bc.ret}', str(bc.ret))

    # piecewise
    pv = prog.func('models.piecewise', 'piecewise_variables')
    SEG = 'bioMax(Numeric(0), bioMin(variable - thresholds[{lo}], {w}))'
    ORDER = f"""
if thresholds[0] is None:
    _R = [bioMin(variable, thresholds[1])]
else:
    _B1 = thresholds[1] - thresholds[0]
    _R = [{SEG.format(lo='0', w='_B1')}]
for _I in range(1, _N - 2):
    _B2 = thresholds[_I + 1] - thresholds[_I]
    _R += [{SEG.format(lo='_I', w='_B2')}]
if thresholds[-1] is None:
    _R += [bioMax(0, variable - thresholds[-2])]
else:
    _B3 = thresholds[-1] - thresholds[-2]
    _R += [{SEG.format(lo='-2', w='_B3')}]
return _R
"""
    # the three widths may share a temporary (as written) or not: every way of sharing is tried
    parts = {
        'first': "if thresholds[0] is None:\n    ___\nelse:\n    _B = thresholds[1] - thresholds[0]\n    _R = [" + SEG.format(lo='0', w='_B') + "]",
        'first-open': "if thresholds[0] is None:\n    _R = [bioMin(variable, thresholds[1])]\nelse:\n    ___",
        'middle': "for _I in range(1, _N - 2):\n    _B = thresholds[_I + 1] - thresholds[_I]\n    _R += [" + SEG.format(lo='_I', w='_B') + "]",
        'last-open': "if thresholds[-1] is None:\n    _R += [bioMax(0, variable - thresholds[-2])]\nelse:\n    ___",
        'last': "if thresholds[-1] is None:\n    ___\nelse:\n    _B = thresholds[-1] - thresholds[-2]\n    _R += [" + SEG.format(lo='-2', w='_B') + "]",
    }
    nlen = find(pv.node, '_N = len(thresholds)')
    # positive part: the width against which the first segment is clipped
    bw = find(pv.node, "if thresholds[0] is None:\n    ___\nelse:\n    ___\n    _R = [bioMax(Numeric(0), bioMin(variable - thresholds[0], __W))]")
    first_by_value = False
    if bw is not None:
        from ..cfg import cfg_of as _cfg_of

        wn = bw['__W'][1]
        cpv = _cfg_of(pv.node)
        widths = _threshold_terms(cpv, pv.node, wn, cpv.node_of(wn))
        t0, t1 = sp.Symbol('thresholds[0]'), sp.Symbol('thresholds[1]')
        w = ' / '.join(sorted({str(v) for v in widths if v is not None})) or unparse(wn)
        if widths and all(v is not None for v in widths):
            # every value the clipping width can have is a combination of thresholds[k]: it either is t1 - t0 or it is not
            # (several definitions reaching on paths that are not told apart, some right and some wrong: open)
            right = [sp.expand(v - (t1 - t0)) == 0 for v in widths]
            okw = True if all(right) else False if not any(right) else None
            first_by_value = okw is True  # max(0, min(x - t0, W)) in the closed branch, W proved to be t1 - t0
            ctx.add('C17.R6', 'piecewise_variables:first-width', okw, pv, 'the first segment is clipped at its own length t1 - t0' if okw
                    else f'the first segment is clipped at {w} instead of the length thresholds[1] - thresholds[0] of the interval: with t0 != 0 the variables no longer sum to the distance from the first threshold', w, positive=okw is False)
        else:
            ctx.add('C17.R6', 'piecewise_variables:first-width', None, pv, f'the width {unparse(wn)} at which the first segment is clipped is not resolved to the thresholds: the form of piecewise_variables changed', w)
    # the bound of the open first segment, by value as well
    bo = find(pv.node, "if thresholds[0] is None:\n    ___\n    _R = [bioMin(variable, __W0)]\nelse:\n    ___")
    open_by_value = False
    if bo is not None and bw is not None:
        w0 = bo['__W0'][1]
        vals = _threshold_terms(cpv, pv.node, w0, cpv.node_of(w0))
        open_by_value = bool(vals) and all(v is not None and sp.expand(v - t1) == 0 for v in vals)
    for what, pat in parts.items():
        ok = (has(pv.node, pat) or (what == 'first' and first_by_value) or (what == 'first-open' and open_by_value)) and nlen is not None
        ctx.add('C17.R6', f'piecewise_variables:{what}', ok, pv, f'{what} segment is max(0, min(x - t_i, t_i+1 - t_i)) (open ends handled)' if ok else f'the {what} segment of piecewise_variables changed', what)
    b = None
    for names in (('_B', '_B', '_B'), ('_B1', '_B2', '_B3'), ('_B1', '_B', '_B'), ('_B', '_B2', '_B'), ('_B', '_B', '_B3')):
        b = b or find(pv.node, ORDER.replace('_B1', names[0]).replace('_B2', names[1]).replace('_B3', names[2]))
    if b is None and first_by_value:
        # the width of the first segment is not a temporary of its own but has been proved above to be t1 - t0
        BYVAL = ORDER.replace("    _B1 = thresholds[1] - thresholds[0]\n", "    ___\n").replace(SEG.format(lo='0', w='_B1'), SEG.format(lo='0', w='__W'))
        b = find(pv.node, BYVAL.replace('_B2', '_B').replace('_B3', '_B')) or find(pv.node, BYVAL)
        if b is None and open_by_value:
            BYVAL = BYVAL.replace("    _R = [bioMin(variable, thresholds[1])]\n", "    ___\n    _R = [bioMin(variable, __W0)]\n")
            b = find(pv.node, BYVAL.replace('_B2', '_B').replace('_B3', '_B')) or find(pv.node, BYVAL)
    ok = b is not None and nlen is not None and b['_N'] == nlen['_N']
    ctx.add('C17.R6', 'piecewise_variables:order', ok, pv, 'first, middle (1 .. n-3) and last segments are appended in this order to the returned list' if ok else 'the segments of piecewise_variables are no longer assembled first / middle / last into the returned list', 'order')
    pf = prog.func('models.piecewise', 'piecewise_formula')
    b = find(pf.node, """
_N = len(thresholds)
___
if betas is not None:
    if len(betas) != _N - 1:
        ___
        raise BiogemeError(__MSG)
_VARS = piecewise_variables(_V, thresholds)
___
_TERMS = __COMP
return bioMultSum(_TERMS)
""")
    ok = b is not None and m_node(_parse(f'[_B * {b["_VARS"]}[_I] for _I, _B in enumerate(betas)]')[0].value, b['__COMP'][1], {})
    ctx.add('C17.R6', 'piecewise_formula', ok, pf, 'sum over segments of beta_i times variable i' if ok else 'piecewise_formula changed', 'formula')
    pfn = prog.func('models.piecewise', 'piecewise_function')
    LOOP = """
_T = 0
for _I, _V in enumerate(betas):
    if thresholds[_I + 1] is None:
        _T += _V * _REST
        return _T
    if x < thresholds[_I + 1]:
        _T += _V * _REST
        return _T
    _T += _V * (thresholds[_I + 1] - (0 if thresholds[_I] is None else thresholds[_I]))
    _REST = x - thresholds[_I + 1]
return _T
"""
    LOOP2 = LOOP.replace("\n_T = 0\n", "\n", 1)
    b2 = find(pfn.node, "_REST = __A if __C else __B\n" + LOOP) or find(pfn.node, "_T = 0\n_REST = __A if __C else __B\n" + LOOP2)
    b1 = (find(pfn.node, "_REST = __INIT\n" + LOOP) or find(pfn.node, "_T = 0\n_REST = __INIT\n" + LOOP2)) if b2 is None else None
    if b1 is None and b2 is None:
        ctx.shape('C17.R6', 'piecewise_function:segments', False, pfn, '', 'rest = <initial distance>; total = 0; for each beta: stop with beta_i * rest when the next threshold is open or beyond x, else add beta_i * (t_i+1 - t_i) and rest = x - t_i+1')
    else:
        ctx.add('C17.R6', 'piecewise_function:segments', True, pfn, 'full segments contribute beta_i (t_i+1 - t_i), the last reached one beta_i times the remaining distance', 'segments')
        if b2 is not None:
            c, a, bb = (unparse(inline_locals(pfn.node, b2[k][1])).replace(' ', '') for k in ('__C', '__A', '__B'))
            ok = (c, a, bb) == ('thresholds[0]isNone', 'x', 'x-thresholds[0]')
            rv = f'{a} if {c} else {bb}'
        else:
            rv = unparse(inline_locals(pfn.node, b1['__INIT'][1])).replace(' ', '')
            ok = rv == 'x-(0ifthresholds[0]isNoneelsethresholds[0])'
        ctx.add('C17.R6', 'piecewise_function:first-segment', ok, pfn, 'the first segment is measured from the first threshold' if ok
                else f'the remaining distance starts at {rv}: with a first threshold t0 != 0 the first segment must be x - t0 (as in piecewise_formula)', rv)

    # segmentation twins
    S = prog.cls('segmentation', 'OneSegmentation')
    be, bcod = S.methods['beta_expression'], S.methods['beta_code']
    BOUNDS = """
if category == self.reference:
    _LB = self.beta.lb
    _UB = self.beta.ub
else:
    _LB = None
    _UB = None
"""
    NAME = "_NAME = self.beta_name(category)\n"
    b1 = body_is(be.body, NAME + BOUNDS + "return Beta(_NAME, self.beta.initValue, _LB, _UB, self.beta.status)") or body_is(be.body, BOUNDS + NAME + "return Beta(_NAME, self.beta.initValue, _LB, _UB, self.beta.status)")
    CODE = """
if assignment:
    return f"{_NAME} = Beta('{_NAME}', {self.beta.initValue}, {_LB}, {_UB}, {self.beta.status})"
return f"Beta('{_NAME}', {self.beta.initValue}, {_LB}, {_UB}, {self.beta.status})"
"""
    b2 = body_is(bcod.body, BOUNDS + NAME + CODE) or body_is(bcod.body, NAME + BOUNDS + CODE)
    ok = b1 is not None and b2 is not None
    ctx.add('C17.R3', 'OneSegmentation.beta_expression/beta_code', ok, bcod, 'code and expression build the same Beta(name, value, bounds, status)' if ok else 'beta_code no longer mirrors beta_expression', 'beta')
    le, lc = S.methods['list_of_expressions'], S.methods['list_of_code']
    ok = has_expr(le.node, '[self.beta_expression(_C) * (self.variable == Numeric(_V)) for _V, _C in self.mapping.items()]')
    ok = ok and has_expr(lc.node, '''[f"{self.beta_name(_C)} * (Variable('{self.variable.name}') == {_V})" for _V, _C in self.mapping.items()]''')
    ok = ok and all(len([n for n in walk_no_nested(m.node) if isinstance(n, ast.Return)]) == 1 for m in (le, lc))
    ctx.add('C17.R3', 'OneSegmentation.list_of_expressions/list_of_code', ok, lc, 'one term per non-reference category: its shift times the indicator of its value' if ok else 'list_of_code no longer mirrors list_of_expressions', 'terms')
    oi = S.methods['__init__']
    ok = has(oi.node, 'self.mapping = {_K: _V for _K, _V in segmentation_tuple.mapping.items() if _V != self.reference}')
    ctx.add('C17.R3', 'OneSegmentation.__init__', ok, oi, 'the reference category carries no shift' if ok else 'the reference category is no longer excluded', 'ref')
    DT = prog.cls('segmentation', 'DiscreteSegmentationTuple')
    dti = DT.methods['__init__']
    stores, flows, escapes = _param_stores(dti.node, 'self.reference', 'reference')
    if stores and not flows and not escapes:
        ctx.add('C17.R3', 'DiscreteSegmentationTuple.__init__:reference', False, dti,
                f'self.reference is only ever set to {", ".join(sorted({unparse(a.value) for a in stores}))}, none of which is computed from the parameter `reference`: the reference category asked for by the caller is never stored, '
                'so the first category stays without shift and the requested one receives a shift', 'reference', positive=True)
    else:
        REFUSE = """
elif reference not in mapping.values():
    ___
    raise BiogemeError(__MSG)
"""
        okr = has(dti.node, "if reference is None:\n    self.reference = next(iter(mapping.values()))" + REFUSE + "else:\n    self.reference = reference") or has(
            dti.node, "if reference is None:\n    _SEL = next(iter(mapping.values()))" + REFUSE + "else:\n    _SEL = reference\nself.reference = _SEL")
        if not okr:
            # the same decision written with the refusal first and a conditional value, locals read as their definitions
            import copy

            flat = copy.deepcopy(dti.node)
            for n in ast.walk(flat):
                if isinstance(n, ast.If):
                    n.test = inline_locals(dti.node, n.test)
                elif isinstance(n, (ast.Assign, ast.AnnAssign)) and n.value is not None and unparse(n.targets[0] if isinstance(n, ast.Assign) else n.target) == 'self.reference':
                    n.value = inline_locals(dti.node, n.value)
            GUARD = "if reference is not None and reference not in mapping.values():\n    ___\n    raise BiogemeError(__MSG)\n___\n"
            okr = any(has(flat, GUARD + st) for st in (
                "self.reference = next(iter(mapping.values())) if reference is None else reference",
                "self.reference = reference if reference is not None else next(iter(mapping.values()))",
                "if reference is None:\n    self.reference = next(iter(mapping.values()))\nelse:\n    self.reference = reference",
                "if reference is not None:\n    self.reference = reference\nelse:\n    self.reference = next(iter(mapping.values()))"))
        okr = okr and not any(isinstance(n, ast.Name) and n.id in ('reference', 'mapping') and isinstance(n.ctx, (ast.Store, ast.Del)) for n in ast.walk(dti.node))
        ctx.add('C17.R3', 'DiscreteSegmentationTuple.__init__:reference', okr if okr else None, dti, 'reference = the category asked for (refused when unknown), the first category by default' if okr else
                'the choice of the reference category is not in the expected form (default: first category; unknown: BiogemeError; otherwise the category asked for)', 'reference')
    G = prog.cls('segmentation', 'Segmentation')
    sb, sc = G.methods['segmented_beta'], G.methods['segmented_code']
    ok = body_is(sb.body, """
_REF = Beta(name=self.beta.name, value=self.beta.initValue, lowerbound=self.beta.lb, upperbound=self.beta.ub, status=self.beta.status)
_T = [_REF]
_T += [_E for _S in self.segmentations for _E in _S.list_of_expressions()]
return bioMultSum(_T)
""") is not None
    ok = ok and body_is(sc.body, """
_RES = '\\n'.join([_S.beta_code(_C, assignment=True) for _S in self.segmentations for _C in _S.mapping.values()])
_RES += '\\n'
_T = [self.beta_code()]
_T += [_E for _S in self.segmentations for _E in _S.list_of_code()]
if len(_T) == 1:
    _RES += _T[0]
else:
    _J = ', '.join(_T)
    _RES += f'{self.prefix}_{self.beta.name} = bioMultSum([{_J}])'
return _RES
""") is not None
    gb = G.methods['beta_code']
    ok = ok and (body_is(gb.body, """
_N = f"'{self.beta.name}'"
return f'Beta({_N}, {self.beta.initValue}, {self.beta.lb}, {self.beta.ub}, {self.beta.status})'
""") is not None)
    ctx.add('C17.R3', 'Segmentation.segmented_beta/segmented_code', ok, sc, 'reference value plus the shifts of every segmentation, in the same order, in code and expression' if ok else 'segmented_code no longer mirrors segmented_beta', 'segmented')
    # correlation
    cr = prog.func('nests', 'NestsForNestedLogit.correlation')
    b = body_is(cr.body, """
_IDX = __INDEX
_N = len(self.choice_set)
___
_C = np.identity(_N)
for _M in self.tuple_of_nests:
    if isinstance(_M.nest_param, Expression):
        ___
        _MU = _M.nest_param.get_value_c(prepare_ids=True)
    else:
        _MU = _M.nest_param
    _ALTS = _M.list_of_alternatives
    for _I, _J in itertools.combinations(_ALTS, 2):
        _C[_IDX[_I]][_IDX[_J]] = _C[_IDX[_J]][_IDX[_I]] = 1.0 - 1.0 / (_MU * _MU) if mu == 1.0 else 1.0 - mu * mu / (_MU * _MU)
return pd.DataFrame(_C, index=list(alternatives_names.values()), columns=list(alternatives_names.values()))
""")
    ok = b is not None and m_node(_parse('{_A: _K for _K, _A in enumerate(self.choice_set)}')[0].value, b['__INDEX'][1], {})
    ctx.add('C17.R4', 'NestsForNestedLogit.correlation', ok, cr, '1 - mu^2/mu_m^2 for every pair inside a nest, symmetric, identity elsewhere, positions from the choice set' if ok else 'the correlation formula of the nested logit changed', 'corr')


_D = 'src/biogeme/distributions.py'
MUTANTS = [
    dict(name='pre-fix: Box-Cox series lacks /2 (seed C17/2)', rule='C17.R2', file='src/biogeme/models/boxcox.py', old='        + ell * log(x) ** 2 / 2.0\n', new='        + ell * log(x) ** 2\n'),
    dict(name='Box-Cox switch asymmetric', rule='C17.R2', file='src/biogeme/models/boxcox.py', old='(ell < Numeric(1.0e-5)) * (ell > -Numeric(1.0e-5))', new='(ell < Numeric(1.0e-5)) * (ell > Numeric(0))'),
    dict(name='Box-Cox branches swapped', rule='C17.R2', file='src/biogeme/models/boxcox.py', old='Elem({0: regular, 1: mclaurin}, close_to_zero)', new='Elem({1: regular, 0: mclaurin}, close_to_zero)'),
    dict(name='triangular falling branch uses (c - a) (seed C17/1)', rule='C17.R5', file=_D, old='        / ((b_expr - a_expr) * (b_expr - c_expr))', new='        / ((b_expr - a_expr) * (c_expr - a_expr))'),
    dict(name='normal pdf divides by 2 s', rule='C17.R5', file=_D, old='    n = Numeric(2.0) * s_expr * s_expr\n    a = d / n\n    num = exp(a)\n    den = s_expr * Numeric(2.506628275)', new='    n = Numeric(2.0) * s_expr\n    a = d / n\n    num = exp(a)\n    den = s_expr * Numeric(2.506628275)'),
    dict(name='lognormal pdf forgets 1/x', rule='C17.R5', file=_D, old='    den = x_expr * s_expr * Numeric(2.506628275)', new='    den = s_expr * Numeric(2.506628275)'),
    dict(name='uniform pdf open interval', rule='C17.R5', file=_D, old='        + (x_expr >= a_expr) * (x_expr <= b_expr) / (b_expr - a_expr)', new='        + (x_expr > a_expr) * (x_expr < b_expr) / (b_expr - a_expr)'),
    dict(name='logistic cdf sign', rule='C17.R5', file=_D, old='exp(-(x_expr - mu_expr) / s_expr))', new='exp((x_expr - mu_expr) / s_expr))'),
    dict(name='sqrt(2 pi) mistyped', rule='C17.R1', file=_D, old='    den = s_expr * Numeric(2.506628275)\n    p = num / den', new='    den = s_expr * Numeric(2.506682275)\n    p = num / den'),
    dict(name='regression likelihood uses log(sigma)/2', rule='C17.R5', file='src/biogeme/loglikelihood.py', old='    f = -(t**2) / 2 - log(sigma**2) / 2 - 0.9189385332', new='    f = -(t**2) / 2 - log(sigma) / 2 - 0.9189385332'),
    dict(name='pre-fix: piecewise_function ignores the first threshold', rule='C17.R6', file='src/biogeme/models/piecewise.py', old='    rest = x if thresholds[0] is None else x - thresholds[0]', new='    rest = x'),
    dict(name='piecewise middle segment clipped with the upper threshold', rule='C17.R6', file='src/biogeme/models/piecewise.py',
         old='    for i in range(1, eye - 2):\n        b = thresholds[i + 1] - thresholds[i]', new='    for i in range(1, eye - 2):\n        b = thresholds[i + 1]'),
    dict(name='segmentation code gives bounds to every category', rule='C17.R3', file='src/biogeme/segmentation.py',
         old='        else:\n            lower_bound = None\n            upper_bound = None\n        name = self.beta_name(category)\n        if assignment:', new='        else:\n            lower_bound = self.beta.lb\n            upper_bound = self.beta.ub\n        name = self.beta_name(category)\n        if assignment:'),
    dict(name='correlation uses 1/mu_m', rule='C17.R4', file='src/biogeme/nests.py', old='                    1.0 - 1.0 / (mu_m * mu_m)', new='                    1.0 - 1.0 / mu_m'),
]
NEUTRAL = [
    dict(name='normal pdf written with a power', file=_D, old='    d = -(x_expr - mu_expr) * (x_expr - mu_expr)\n    n = Numeric(2.0) * s_expr * s_expr\n    a = d / n\n    num = exp(a)\n    den = s_expr * Numeric(2.506628275)\n    p = num / den\n    return p\n\n\ndef lognormalpdf',
         new='    z = (x_expr - mu_expr) / s_expr\n    p = exp(-(z**2) / Numeric(2.0)) / (s_expr * Numeric(2.506628275))\n    return p\n\n\ndef lognormalpdf'),
    dict(name='triangular zero branches dropped', file=_D, old='    return bioMultSum([r1, r2, r3, r4, r5])', new='    return bioMultSum([r2, r3, r4])'),
]
