"""C17 - specification helpers equal their documented closed forms (formula normal form)."""

from __future__ import annotations

import ast
import math
import re

import sympy as sp

from ..core import inline_locals, AnalysisError, call_name, unparse, walk_no_nested
from ..dsl import ELEM, EQ, LE, LT, Dsl
from ..pattern import _parse, body_is, find, find_expr, has, has_expr, m_node
from ..report import Ctx
from ..sym import equal

SQRT2PI = sp.sqrt(2 * sp.pi)
HALFLOG2PI = sp.log(2 * sp.pi) / 2
CONSTS = {math.sqrt(2 * math.pi): SQRT2PI, 0.5 * math.log(2 * math.pi): HALFLOG2PI}


def _same(a, b) -> bool:
    try:
        if equal(a, b):
            return True
    except Exception:
        pass
    d = sp.simplify(sp.expand(sp.expand_log(a - b, force=True)))
    return d == 0


#: obligations whose failure contradicts the property (rule, construct pattern, why); every other failure is 'not recognised'
POSITIVE: list[tuple[str, str, str]] = [
    ('C17.R1', r':constant$', 'a numerical constant is not the mathematical constant it stands for, at the precision it is printed with'),
    ('C17.R5', r'^(distributions\.\w+|loglikelihoodregression)$', 'the formula translated from the source is not the textbook density / distribution'),
    ('C17.R2', r'^boxcox:(regular|maclaurin|switch)$', 'a branch of the Box-Cox transform, translated from the source, is not (x^l - 1)/l, its Maclaurin polynomial, or the symmetric switch'),
]


def run(ctx: Ctx) -> None:
    ctx.positive_table = list(POSITIVE)
    prog = ctx.prog
    ctx.rule('C17.R1', 'constants: the numeric literals standing for sqrt(2 pi) and (1/2) ln(2 pi) are correct to their printed precision')
    ctx.rule('C17.R2', 'Box-Cox: the regular branch is (x^l - 1)/l, the near-zero branch is the degree-3 Maclaurin polynomial of it in l, the switch is a symmetric interval around 0, x = 0 maps to 0')
    ctx.rule('C17.R3', 'code/expression twins of the segmentation: the generated code names, bounds, values, status and terms are those of the generated expression')
    ctx.rule('C17.R4', 'nested-logit correlation: 1 - 1/mu_m^2 (1 - mu^2/mu_m^2 with a scale) assigned symmetrically to pairs inside one nest only, identity elsewhere')
    ctx.rule('C17.R5', 'density / distribution helpers equal the textbook formulas (sympy normal form of the returned DSL expression; comparisons as indicator atoms): '
             'normal, lognormal, uniform, triangular pdf, logistic cdf, normal log density of the regression likelihood')
    ctx.rule('C17.R6', 'piecewise: variable i is max(0, min(x - t_i, t_i+1 - t_i)) (open ends handled), the formula multiplies beta_i with variable i, and the plain '
             'function measures the first segment from the first threshold')
    ctx.not_decided += ['integration of the densities to one (follows from the closed forms, not re-derived)', 'numeric agreement of piecewise_function and piecewise_formula beyond the structural clause']
    D = 'distributions'
    x, mu, s, a, b, c = sp.symbols('x mu s a b c', real=True)

    def dsl(mod, name):
        d = Dsl(prog.func(mod, name), CONSTS)
        if d.ret is None:
            raise AnalysisError(f'C17: {name} returns nothing')
        return d

    # constants
    for mod, name, want, label in ((D, 'normalpdf', math.sqrt(2 * math.pi), 'sqrt(2 pi)'), (D, 'lognormalpdf', math.sqrt(2 * math.pi), 'sqrt(2 pi)'), ('loglikelihood', 'loglikelihoodregression', 0.5 * math.log(2 * math.pi), '(1/2) ln(2 pi)')):
        f = prog.func(mod, name)
        lits = [n for n in ast.walk(f.node) if isinstance(n, ast.Constant) and isinstance(n.value, float) and abs(n.value - want) < 0.01]
        ok = len(lits) == 1
        if ok:
            digits = len(repr(lits[0].value).split('.')[-1])
            ok = abs(lits[0].value - want) <= 0.5 * 10 ** (-digits) * 1.0000001
        ctx.add('C17.R1', f'{name}:constant', ok, (f.file, lits[0].lineno if lits else f.line), f'{lits[0].value if lits else "?"} stands for {label} = {want:.12g}' + ('' if ok else ' - wrong at the printed precision'), str(lits[0].value) if lits else '')
    # densities
    cases = {
        'normalpdf': sp.exp(-((x - mu) ** 2) / (2 * s**2)) / (s * SQRT2PI),
        'lognormalpdf': LT(0, x) * sp.exp(-((sp.log(x) - mu) ** 2) / (2 * s**2)) / (x * s * SQRT2PI),
        'uniformpdf': LE(a, x) * LE(x, b) / (b - a),
        'triangularpdf': LE(a, x) * LT(x, c) * 2 * (x - a) / ((b - a) * (c - a)) + EQ(x, c) * 2 / (b - a) + LT(c, x) * LE(x, b) * 2 * (b - x) / ((b - a) * (b - c)),
        'logisticcdf': 1 / (1 + sp.exp(-(x - mu) / s)),
    }
    for name, want in cases.items():
        d = dsl(D, name)
        got = d.ret
        # terms that are explicitly zero (indicator * 0) vanish in the normal form
        ok = _same(got, want)
        ctx.add('C17.R5', f'distributions.{name}', ok, d.f, f'{name} = {sp.simplify(got)}' + ('' if ok else f' ; textbook: {want}'), detail='' if ok else str(sp.simplify(got)))
    meas, model, sigma = sp.symbols('meas model sigma', real=True)
    d = dsl('loglikelihood', 'loglikelihoodregression')
    want = -((meas - model) / sigma) ** 2 / 2 - sp.log(sigma**2) / 2 - HALFLOG2PI
    ok = _same(d.ret, want)
    ctx.add('C17.R5', 'loglikelihoodregression', ok, d.f, f'log density = {d.ret}' + ('' if ok else f' ; normal log density: {want}'), detail='' if ok else str(d.ret))
    lr = prog.func('loglikelihood', 'likelihoodregression')
    ok = [unparse(s_) for s_ in lr.body] == ['return exp(loglikelihoodregression(meas, model, sigma))']
    ctx.add('C17.R5', 'likelihoodregression', ok, lr, 'likelihood = exp(log likelihood) with the same arguments' if ok else 'likelihoodregression is no longer exp(loglikelihoodregression(meas, model, sigma))', 'twin')
    ml = prog.func('loglikelihood', 'mixedloglikelihood')
    ok = body_is(ml.body, "_L = MonteCarlo(prob)\nreturn log(_L)") is not None or body_is(ml.body, "return log(MonteCarlo(prob))") is not None
    ctx.add('C17.R5', 'mixedloglikelihood', ok, ml, 'log of the Monte-Carlo mean of the probability' if ok else 'mixedloglikelihood changed', 'mixed')
    ctx.floor('C17.R5', 8)

    # Box-Cox
    bc = dsl('models.boxcox', 'boxcox')
    xx, ell = bc.env['x'], bc.env['ell']
    # the structure is read off the returned selection: Elem({0: Elem({0: regular, 1: series}, switch), 1: 0}, x == 0)
    reg = mac = cz = smooth = None
    r = bc.ret
    if getattr(r, 'func', None) == ELEM and len(r.args) == 5:
        items = {r.args[1]: r.args[2], r.args[3]: r.args[4]}
        inner = items.get(sp.Integer(0))
        if getattr(inner, 'func', None) == ELEM and len(inner.args) == 5:
            smooth = inner
            cz = inner.args[0]
            it2 = {inner.args[1]: inner.args[2], inner.args[3]: inner.args[4]}
            reg, mac = it2.get(sp.Integer(0)), it2.get(sp.Integer(1))
    if reg is None or mac is None or cz is None:
        raise AnalysisError(f'C17: anchor missing: boxcox no longer returns Elem({{0: Elem({{0: regular, 1: series}}, switch), 1: 0}}, x == 0): {r}')
    ok = _same(reg, (xx**ell - 1) / ell)
    ctx.add('C17.R2', 'boxcox:regular', ok, bc.f, f'regular branch = {reg}' + ('' if ok else ' ; expected (x^l - 1)/l'), str(reg))
    Lx = sp.Symbol('Lx', real=True)
    series = sp.series((sp.exp(ell * Lx) - 1) / ell, ell, 0, 4).removeO()
    got = mac.subs(sp.log(xx), Lx)
    ok = sp.simplify(sp.expand(got - series)) == 0
    ctx.add('C17.R2', 'boxcox:maclaurin', ok, bc.f, f'near-zero branch = {sp.expand(got)}' + ('' if ok else f' ; the Maclaurin polynomial of (x^l-1)/l is {sp.expand(series)}'), '' if ok else str(sp.expand(got)))
    eps = sp.Rational(1, 100000)
    ok = _same(cz, LT(ell, eps) * LT(-eps, ell))
    ctx.add('C17.R2', 'boxcox:switch', ok, bc.f, f'switch = {cz}' + ('' if ok else ' ; expected the symmetric interval |l| < 1e-5'), str(cz))
    ok = smooth is not None and smooth == ELEM(cz, 0, reg, 1, mac) and bc.ret == ELEM(EQ(xx, 0), 0, smooth, 1, 0)
    ctx.add('C17.R2', 'boxcox:selection', ok, bc.f, 'series iff close to zero; 0 iff x = 0' if ok else f'selection of the branches changed: {bc.ret}', str(bc.ret))

    # piecewise
    pv = prog.func('models.piecewise', 'piecewise_variables')
    SEG = 'bioMax(Numeric(0), bioMin(variable - thresholds[{lo}], {w}))'
    b = find(pv.node, f"""
if thresholds[0] is None:
    _R = [bioMin(variable, thresholds[1])]
else:
    _B = thresholds[1] - thresholds[0]
    _R = [{SEG.format(lo='0', w='_B')}]
for _I in range(1, _N - 2):
    _B = thresholds[_I + 1] - thresholds[_I]
    _R += [{SEG.format(lo='_I', w='_B')}]
if thresholds[-1] is None:
    _R += [bioMax(0, variable - thresholds[-2])]
else:
    _B = thresholds[-1] - thresholds[-2]
    _R += [{SEG.format(lo='-2', w='_B')}]
return _R
""")
    parts = {
        'first': "if thresholds[0] is None:\n    ___\nelse:\n    _B = thresholds[1] - thresholds[0]\n    _R = [" + SEG.format(lo='0', w='_B') + "]",
        'first-open': "if thresholds[0] is None:\n    _R = [bioMin(variable, thresholds[1])]\nelse:\n    ___",
        'middle': "for _I in range(1, _N - 2):\n    _B = thresholds[_I + 1] - thresholds[_I]\n    _R += [" + SEG.format(lo='_I', w='_B') + "]",
        'last-open': "if thresholds[-1] is None:\n    _R += [bioMax(0, variable - thresholds[-2])]\nelse:\n    ___",
        'last': "if thresholds[-1] is None:\n    ___\nelse:\n    _B = thresholds[-1] - thresholds[-2]\n    _R += [" + SEG.format(lo='-2', w='_B') + "]",
    }
    nlen = find(pv.node, '_N = len(thresholds)')
    # positive part: the width against which the first segment is clipped
    bw = find(pv.node, "if thresholds[0] is None:\n    ___\nelse:\n    ___\n    _R = [bioMax(Numeric(0), bioMin(variable - thresholds[0], __W))]")
    if bw is not None:

        from ..cfg import cfg_of as _cfg_of

        wn = bw['__W'][1]
        cpv = _cfg_of(pv.node)
        origins = cpv.origins(wn, cpv.node_of(wn)) if isinstance(wn, ast.Name) else [wn]
        ws = sorted({unparse(o).replace(' ', '') for o in origins})
        w = ' / '.join(ws)
        okw = ws == ['thresholds[1]-thresholds[0]']
        ctx.add('C17.R6', 'piecewise_variables:first-width', okw, pv, 'the first segment is clipped at its own length t1 - t0' if okw
                else f'the first segment is clipped at {w} instead of the length thresholds[1] - thresholds[0] of the interval: with t0 != 0 the variables no longer sum to the distance from the first threshold', w, positive=True)
    for what, pat in parts.items():
        ok = has(pv.node, pat) and nlen is not None
        ctx.add('C17.R6', f'piecewise_variables:{what}', ok, pv, f'{what} segment is max(0, min(x - t_i, t_i+1 - t_i)) (open ends handled)' if ok else f'the {what} segment of piecewise_variables changed', what)
    ok = b is not None and nlen is not None and b['_N'] == nlen['_N']
    ctx.add('C17.R6', 'piecewise_variables:order', ok, pv, 'first, middle (1 .. n-3) and last segments are appended in this order to the returned list' if ok else 'the segments of piecewise_variables are no longer assembled first / middle / last into the returned list', 'order')
    pf = prog.func('models.piecewise', 'piecewise_formula')
    b = find(pf.node, """
_N = len(thresholds)
___
if betas is not None:
    if len(betas) != _N - 1:
        ___
        raise BiogemeError(__MSG)
_VARS = piecewise_variables(_V, thresholds)
___
_TERMS = __COMP
return bioMultSum(_TERMS)
""")
    ok = b is not None and m_node(_parse(f'[_B * {b["_VARS"]}[_I] for _I, _B in enumerate(betas)]')[0].value, b['__COMP'][1], {})
    ctx.add('C17.R6', 'piecewise_formula', ok, pf, 'sum over segments of beta_i times variable i' if ok else 'piecewise_formula changed', 'formula')
    pfn = prog.func('models.piecewise', 'piecewise_function')
    LOOP = """
_T = 0
for _I, _V in enumerate(betas):
    if thresholds[_I + 1] is None:
        _T += _V * _REST
        return _T
    if x < thresholds[_I + 1]:
        _T += _V * _REST
        return _T
    _T += _V * (thresholds[_I + 1] - (0 if thresholds[_I] is None else thresholds[_I]))
    _REST = x - thresholds[_I + 1]
return _T
"""
    LOOP2 = LOOP.replace("\n_T = 0\n", "\n", 1)
    b2 = find(pfn.node, "_REST = __A if __C else __B\n" + LOOP) or find(pfn.node, "_T = 0\n_REST = __A if __C else __B\n" + LOOP2)
    b1 = (find(pfn.node, "_REST = __INIT\n" + LOOP) or find(pfn.node, "_T = 0\n_REST = __INIT\n" + LOOP2)) if b2 is None else None
    if b1 is None and b2 is None:
        ctx.shape('C17.R6', 'piecewise_function:segments', False, pfn, '', 'rest = <initial distance>; total = 0; for each beta: stop with beta_i * rest when the next threshold is open or beyond x, else add beta_i * (t_i+1 - t_i) and rest = x - t_i+1')
    else:
        ctx.add('C17.R6', 'piecewise_function:segments', True, pfn, 'full segments contribute beta_i (t_i+1 - t_i), the last reached one beta_i times the remaining distance', 'segments')
        if b2 is not None:
            c, a, bb = (unparse(inline_locals(pfn.node, b2[k][1])).replace(' ', '') for k in ('__C', '__A', '__B'))
            ok = (c, a, bb) == ('thresholds[0]isNone', 'x', 'x-thresholds[0]')
            rv = f'{a} if {c} else {bb}'
        else:
            rv = unparse(inline_locals(pfn.node, b1['__INIT'][1])).replace(' ', '')
            ok = rv == 'x-(0ifthresholds[0]isNoneelsethresholds[0])'
        ctx.add('C17.R6', 'piecewise_function:first-segment', ok, pfn, 'the first segment is measured from the first threshold' if ok
                else f'the remaining distance starts at {rv}: with a first threshold t0 != 0 the first segment must be x - t0 (as in piecewise_formula)', rv)

    # segmentation twins
    S = prog.cls('segmentation', 'OneSegmentation')
    be, bcod = S.methods['beta_expression'], S.methods['beta_code']
    BOUNDS = """
if category == self.reference:
    _LB = self.beta.lb
    _UB = self.beta.ub
else:
    _LB = None
    _UB = None
"""
    NAME = "_NAME = self.beta_name(category)\n"
    b1 = body_is(be.body, NAME + BOUNDS + "return Beta(_NAME, self.beta.initValue, _LB, _UB, self.beta.status)") or body_is(be.body, BOUNDS + NAME + "return Beta(_NAME, self.beta.initValue, _LB, _UB, self.beta.status)")
    CODE = """
if assignment:
    return f"{_NAME} = Beta('{_NAME}', {self.beta.initValue}, {_LB}, {_UB}, {self.beta.status})"
return f"Beta('{_NAME}', {self.beta.initValue}, {_LB}, {_UB}, {self.beta.status})"
"""
    b2 = body_is(bcod.body, BOUNDS + NAME + CODE) or body_is(bcod.body, NAME + BOUNDS + CODE)
    ok = b1 is not None and b2 is not None
    ctx.add('C17.R3', 'OneSegmentation.beta_expression/beta_code', ok, bcod, 'code and expression build the same Beta(name, value, bounds, status)' if ok else 'beta_code no longer mirrors beta_expression', 'beta')
    le, lc = S.methods['list_of_expressions'], S.methods['list_of_code']
    ok = has_expr(le.node, '[self.beta_expression(_C) * (self.variable == Numeric(_V)) for _V, _C in self.mapping.items()]')
    ok = ok and has_expr(lc.node, '''[f"{self.beta_name(_C)} * (Variable('{self.variable.name}') == {_V})" for _V, _C in self.mapping.items()]''')
    ok = ok and all(len([n for n in walk_no_nested(m.node) if isinstance(n, ast.Return)]) == 1 for m in (le, lc))
    ctx.add('C17.R3', 'OneSegmentation.list_of_expressions/list_of_code', ok, lc, 'one term per non-reference category: its shift times the indicator of its value' if ok else 'list_of_code no longer mirrors list_of_expressions', 'terms')
    oi = S.methods['__init__']
    ok = has(oi.node, 'self.mapping = {_K: _V for _K, _V in segmentation_tuple.mapping.items() if _V != self.reference}')
    ctx.add('C17.R3', 'OneSegmentation.__init__', ok, oi, 'the reference category carries no shift' if ok else 'the reference category is no longer excluded', 'ref')
    DT = prog.cls('segmentation', 'DiscreteSegmentationTuple')
    dti = DT.methods['__init__']
    stores = [a for a in walk_no_nested(dti.node) if isinstance(a, ast.Assign) and unparse(a.targets[0]) == 'self.reference']
    flows = [a for a in stores if any(isinstance(n, ast.Name) and n.id == 'reference' for n in ast.walk(a.value))]
    if stores and not flows:
        ctx.add('C17.R3', 'DiscreteSegmentationTuple.__init__:reference', False, dti,
                f'self.reference is only ever set to {", ".join(sorted({unparse(a.value) for a in stores}))}: the reference category asked for by the caller is never stored, so the first category stays without shift '
                'and the requested one receives a shift', 'reference', positive=True)
    else:
        okr = has(dti.node, """
if reference is None:
    self.reference = next(iter(mapping.values()))
elif reference not in mapping.values():
    ___
    raise BiogemeError(__MSG)
else:
    self.reference = reference
""")
        ctx.add('C17.R3', 'DiscreteSegmentationTuple.__init__:reference', okr if okr else None, dti, 'reference = the category asked for (refused when unknown), the first category by default' if okr else
                'the choice of the reference category is not in the expected form (default: first category; unknown: BiogemeError; otherwise the category asked for)', 'reference')
    G = prog.cls('segmentation', 'Segmentation')
    sb, sc = G.methods['segmented_beta'], G.methods['segmented_code']
    ok = body_is(sb.body, """
_REF = Beta(name=self.beta.name, value=self.beta.initValue, lowerbound=self.beta.lb, upperbound=self.beta.ub, status=self.beta.status)
_T = [_REF]
_T += [_E for _S in self.segmentations for _E in _S.list_of_expressions()]
return bioMultSum(_T)
""") is not None
    ok = ok and body_is(sc.body, """
_RES = '\\n'.join([_S.beta_code(_C, assignment=True) for _S in self.segmentations for _C in _S.mapping.values()])
_RES += '\\n'
_T = [self.beta_code()]
_T += [_E for _S in self.segmentations for _E in _S.list_of_code()]
if len(_T) == 1:
    _RES += _T[0]
else:
    _J = ', '.join(_T)
    _RES += f'{self.prefix}_{self.beta.name} = bioMultSum([{_J}])'
return _RES
""") is not None
    gb = G.methods['beta_code']
    ok = ok and (body_is(gb.body, """
_N = f"'{self.beta.name}'"
return f'Beta({_N}, {self.beta.initValue}, {self.beta.lb}, {self.beta.ub}, {self.beta.status})'
""") is not None)
    ctx.add('C17.R3', 'Segmentation.segmented_beta/segmented_code', ok, sc, 'reference value plus the shifts of every segmentation, in the same order, in code and expression' if ok else 'segmented_code no longer mirrors segmented_beta', 'segmented')
    # correlation
    cr = prog.func('nests', 'NestsForNestedLogit.correlation')
    b = body_is(cr.body, """
_IDX = __INDEX
_N = len(self.choice_set)
___
_C = np.identity(_N)
for _M in self.tuple_of_nests:
    if isinstance(_M.nest_param, Expression):
        ___
        _MU = _M.nest_param.get_value_c(prepare_ids=True)
    else:
        _MU = _M.nest_param
    _ALTS = _M.list_of_alternatives
    for _I, _J in itertools.combinations(_ALTS, 2):
        _C[_IDX[_I]][_IDX[_J]] = _C[_IDX[_J]][_IDX[_I]] = 1.0 - 1.0 / (_MU * _MU) if mu == 1.0 else 1.0 - mu * mu / (_MU * _MU)
return pd.DataFrame(_C, index=list(alternatives_names.values()), columns=list(alternatives_names.values()))
""")
    ok = b is not None and m_node(_parse('{_A: _K for _K, _A in enumerate(self.choice_set)}')[0].value, b['__INDEX'][1], {})
    ctx.add('C17.R4', 'NestsForNestedLogit.correlation', ok, cr, '1 - mu^2/mu_m^2 for every pair inside a nest, symmetric, identity elsewhere, positions from the choice set' if ok else 'the correlation formula of the nested logit changed', 'corr')


_D = 'src/biogeme/distributions.py'
MUTANTS = [
    dict(name='pre-fix: Box-Cox series lacks /2 (seed C17/2)', rule='C17.R2', file='src/biogeme/models/boxcox.py', old='        + ell * log(x) ** 2 / 2.0\n', new='        + ell * log(x) ** 2\n'),
    dict(name='Box-Cox switch asymmetric', rule='C17.R2', file='src/biogeme/models/boxcox.py', old='(ell < Numeric(1.0e-5)) * (ell > -Numeric(1.0e-5))', new='(ell < Numeric(1.0e-5)) * (ell > Numeric(0))'),
    dict(name='Box-Cox branches swapped', rule='C17.R2', file='src/biogeme/models/boxcox.py', old='Elem({0: regular, 1: mclaurin}, close_to_zero)', new='Elem({1: regular, 0: mclaurin}, close_to_zero)'),
    dict(name='triangular falling branch uses (c - a) (seed C17/1)', rule='C17.R5', file=_D, old='        / ((b_expr - a_expr) * (b_expr - c_expr))', new='        / ((b_expr - a_expr) * (c_expr - a_expr))'),
    dict(name='normal pdf divides by 2 s', rule='C17.R5', file=_D, old='    n = Numeric(2.0) * s_expr * s_expr\n    a = d / n\n    num = exp(a)\n    den = s_expr * Numeric(2.506628275)', new='    n = Numeric(2.0) * s_expr\n    a = d / n\n    num = exp(a)\n    den = s_expr * Numeric(2.506628275)'),
    dict(name='lognormal pdf forgets 1/x', rule='C17.R5', file=_D, old='    den = x_expr * s_expr * Numeric(2.506628275)', new='    den = s_expr * Numeric(2.506628275)'),
    dict(name='uniform pdf open interval', rule='C17.R5', file=_D, old='        + (x_expr >= a_expr) * (x_expr <= b_expr) / (b_expr - a_expr)', new='        + (x_expr > a_expr) * (x_expr < b_expr) / (b_expr - a_expr)'),
    dict(name='logistic cdf sign', rule='C17.R5', file=_D, old='exp(-(x_expr - mu_expr) / s_expr))', new='exp((x_expr - mu_expr) / s_expr))'),
    dict(name='sqrt(2 pi) mistyped', rule='C17.R1', file=_D, old='    den = s_expr * Numeric(2.506628275)\n    p = num / den', new='    den = s_expr * Numeric(2.506682275)\n    p = num / den'),
    dict(name='regression likelihood uses log(sigma)/2', rule='C17.R5', file='src/biogeme/loglikelihood.py', old='    f = -(t**2) / 2 - log(sigma**2) / 2 - 0.9189385332', new='    f = -(t**2) / 2 - log(sigma) / 2 - 0.9189385332'),
    dict(name='pre-fix: piecewise_function ignores the first threshold', rule='C17.R6', file='src/biogeme/models/piecewise.py', old='    rest = x if thresholds[0] is None else x - thresholds[0]', new='    rest = x'),
    dict(name='piecewise middle segment clipped with the upper threshold', rule='C17.R6', file='src/biogeme/models/piecewise.py',
         old='    for i in range(1, eye - 2):\n        b = thresholds[i + 1] - thresholds[i]', new='    for i in range(1, eye - 2):\n        b = thresholds[i + 1]'),
    dict(name='segmentation code gives bounds to every category', rule='C17.R3', file='src/biogeme/segmentation.py',
         old='        else:\n            lower_bound = None\n            upper_bound = None\n        name = self.beta_name(category)\n        if assignment:', new='        else:\n            lower_bound = self.beta.lb\n            upper_bound = self.beta.ub\n        name = self.beta_name(category)\n        if assignment:'),
    dict(name='correlation uses 1/mu_m', rule='C17.R4', file='src/biogeme/nests.py', old='                    1.0 - 1.0 / (mu_m * mu_m)', new='                    1.0 - 1.0 / mu_m'),
]
NEUTRAL = [
    dict(name='normal pdf written with a power', file=_D, old='    d = -(x_expr - mu_expr) * (x_expr - mu_expr)\n    n = Numeric(2.0) * s_expr * s_expr\n    a = d / n\n    num = exp(a)\n    den = s_expr * Numeric(2.506628275)\n    p = num / den\n    return p\n\n\ndef lognormalpdf',
         new='    z = (x_expr - mu_expr) / s_expr\n    p = exp(-(z**2) / Numeric(2.0)) / (s_expr * Numeric(2.506628275))\n    return p\n\n\ndef lognormalpdf'),
    dict(name='triangular zero branches dropped', file=_D, old='    return bioMultSum([r1, r2, r3, r4, r5])', new='    return bioMultSum([r2, r3, r4])'),
]
