"""C16 - catalogs span the product of their controllers; operators stay inside it (structural clauses)."""

from __future__ import annotations

import ast
import re

from ..cfg import cfg_of
from ..core import inline_locals, named_args, seq, AnalysisError, call_name, unparse, walk_no_nested
from ..pattern import _parse, body_is, find, find_expr, has, has_expr, m_node
from ..report import Ctx

#: recursive tree methods that deliberately visit *all* members of a catalog, not only the selected one
ALL_MEMBERS = {
    'dict_of_catalogs': 'inventory of the catalogs of the whole specification space',
    'contains_catalog': 'built on dict_of_catalogs',
    'set_central_controller': 'every member, selected or not, must know the central controller',
    'get_all_controllers': 'the product of controllers spans all members',
    'reset_expression_selection': 'resets the whole tree',
    'set_of_multiple_expressions': 'inventory helper',
    'number_of_multiple_expressions': 'asks the central controller',
}
ACCESSORS = ('get_id', 'get_children', 'get_value', 'get_signature')


def _override(M, E, name: str):
    """the method ``name`` that an instance of M runs when it is not the one of E (or of a base of E): defined in M itself or in a class
    that precedes E in the resolution order of M (a mixin); None when E's own version is what runs"""
    owner = M.owner_of(name)
    if owner is None or owner is E or E.is_subclass_of(owner):
        return None
    return M.resolve(name)


def _bound_otherwise(M, E, name: str) -> bool:
    """``name`` is bound in the body of M (or of a class that precedes E in the resolution order of M) by something that is not a `def`:
    an assignment (`name = factory(...)`, `name = other_method`), an import, a loop ... - an override that the rule cannot read"""
    for c in M.mro():
        if c is E or E.is_subclass_of(c):
            break
        if name in c.methods:
            return False
        if name in c.assigns:
            return True
        for st in c.node.body:
            if isinstance(st, (ast.FunctionDef, ast.AsyncFunctionDef, ast.ClassDef)):
                if st.name == name:
                    return True  # (a def the class table does not list: conditional / replaced / a class of that name)
                continue
            for n in walk_no_nested(st):
                if isinstance(n, ast.Name) and isinstance(n.ctx, (ast.Store, ast.Del)) and n.id == name:
                    return True
                if isinstance(n, ast.alias) and (n.asname or n.name.split('.')[0]) == name:
                    return True
                if isinstance(n, (ast.FunctionDef, ast.AsyncFunctionDef, ast.ClassDef)) and n.name == name:
                    return True
                if isinstance(n, ast.Call) and call_name(n) in ('setattr', 'delattr', 'locals', 'vars'):
                    return True
        if c.node.decorator_list or any(k.arg != 'metaclass' or unparse(k.value) not in ('abc.ABCMeta', 'ABCMeta') for k in c.node.keywords):
            return True  # a class decorator / an unknown metaclass may add methods
    return False


def _is_new_function(f) -> bool:
    """the function is not in the inventory of the reference tree"""
    from ..normal import inventory

    inv = inventory()
    if inv is None:
        return False
    key = f'{f.file}::{f.qualname}'
    return key not in inv and key.replace('.<locals>', '') not in inv


def _applies_configuration(f, call: ast.Call, own_params: set, depth: int = 2):
    """does this call, made in the operator ``f``, apply the configuration that ``f`` was given?  True: it runs a function new with respect
    to the reference tree (a method reached through the resolution order of the class, a local closure) whose body calls
    self.set_configuration(<the argument>) unconditionally; None: it runs such a new function and what that does is not established;
    False: it is a call of a function of the reference tree or of another object"""
    fn = call.func
    h, bound = None, {}
    if isinstance(fn, ast.Attribute) and isinstance(fn.value, ast.Name) and fn.value.id == 'self' and f.cls is not None:
        h = f.cls.resolve(fn.attr)
        if h is None:
            # not a method the class table knows: bound by assignment in a class body, or a plain attribute
            return None if any(fn.attr in c.assigns for c in f.cls.mro()) else False
        if not _is_new_function(h):
            return False
        if h.node.decorator_list:
            return None
        params = h.positional_params()[1:]
    elif isinstance(fn, ast.Name):
        local = [n for n in ast.walk(f.node) if isinstance(n, (ast.FunctionDef, ast.AsyncFunctionDef)) and n is not f.node and n.name == fn.id]
        lam = [n for n in walk_no_nested(f.node) if isinstance(n, ast.Assign) and isinstance(n.value, ast.Lambda) and any(isinstance(t, ast.Name) and t.id == fn.id for t in n.targets)]
        if lam:
            return None
        if not local:
            r = f.module and getattr(f.module, 'functions', {}).get(fn.id)
            if r is not None and _is_new_function(r) and any(isinstance(a, ast.Name) and a.id == 'self' for a in list(call.args) + [k.value for k in call.keywords]):
                return None
            return False
        if len(local) != 1 or local[0].decorator_list:
            return None
        h = type('H', (), {'node': local[0]})()
        a_ = local[0].args
        params = [x.arg for x in a_.posonlyargs + a_.args]
        bound = {p_: p_ for p_ in own_params if p_ not in params}  # free variables of the closure
    else:
        return False
    if any(isinstance(a, ast.Starred) for a in call.args) or any(k.arg is None for k in call.keywords) or len(call.args) > len(params):
        return None
    given = dict(bound)
    for p_, a in list(zip(params, call.args)) + [(k.arg, k.value) for k in call.keywords]:
        t = unparse(inline_locals(f.node, a))
        if t in own_params:
            given[p_] = t
    for st in _statements(h.node.body):
        if isinstance(st, ast.Expr) and isinstance(st.value, ast.Call) and unparse(st.value.func) == 'self.set_configuration' and len(st.value.args) + len(st.value.keywords) == 1:
            arg = unparse(inline_locals(h.node, (st.value.args + [k.value for k in st.value.keywords])[0]))
            if arg in given:
                return True
        if not isinstance(st, (ast.Expr, ast.Assign, ast.AnnAssign)):
            break
    return None


def recursive_methods(E) -> dict[str, object]:
    """methods of Expression that call the same method on their children"""
    out = {}
    for name, f in E.methods.items():
        if name.startswith('__') or f.decorator_call('deprecated') is not None:
            continue
        for n in ast.walk(f.node):
            if isinstance(n, ast.Call) and isinstance(n.func, ast.Attribute) and n.func.attr == name and isinstance(n.func.value, ast.Name) and n.func.value.id != 'self':
                # receiver is a loop variable over the children
                out[name] = f
    return out


#: obligations whose failure contradicts the property (rule, construct pattern, why); every other failure is 'not recognised'
POSITIVE: list[tuple[str, str, str]] = [
]
#: every positive verdict of this module is passed explicitly (positive=True) next to the fact it rests on: a missing override, a
#: delegation to a fixed member / to the base class / with permuted parameters (T1), an order-insensitive comparison that decides the
#: compatibility of a shared controller, a selection by an index that is not the controller's (T5), the nesting of the two loops (T6)


def run(ctx: Ctx) -> None:
    ctx.positive_table = list(POSITIVE)
    prog = ctx.prog
    ctx.rule('C16.T1', 'delegation completeness: every recursive tree method of Expression (it calls itself on the children) is overridden in MultipleExpression and forwards '
             'to the selected member with its own parameters in order - the base versions start at get_children(), i.e. below the selected member - unless it is in the '
             'frozen table of methods that visit all members by design; the accessors get_id / get_children / get_value / get_signature delegate to the same selected()')
    ctx.rule('C16.T2', 'canonical id: a configuration sorts its selections and refuses duplicate controllers before its string id is computed; get_string_id and from_string use '
             'the same two separators; names containing a separator are refused')
    ctx.rule('C16.T3', 'enumeration: the central controller takes the states of all controllers returned by get_all_controllers (a catalog contributes its own controller and '
             'recurses into every member) and enumerates itertools.product over them')
    ctx.rule('C16.T4', 'operator closure and inverse: decreased_controller is increased_controller with the step negated; all neighbourhood operators go through '
             'modify_controller(circular=True), whose circular branch reduces the index modulo the controller size; every operator starts from set_configuration(current) '
             'and returns get_configuration()')
    ctx.rule('C16.T6', 'layout writer <-> index reader: SegmentedParameters lists the generic parameters, then the parameters of each alternative in turn (outer loop over the alternatives, inner loop '
             'over the parameters), which is the layout get_index / get_beta address')
    ctx.rule('C16.T5', 'selection: a catalog returns the member at the current index of its controller; a shared controller must list exactly the names of the catalog; '
             'set_configuration sets every controller by name and refuses unknown or missing ones')
    ctx.not_decided += ['equality of the configured formula value with the hand-written one (reduces to C01 through T1)']
    E = prog.cls('expressions.base_expressions', 'Expression')
    M = prog.cls('expressions.multiple_expressions', 'MultipleExpression')
    rec = recursive_methods(E)
    if len(rec) < 15:
        raise AnalysisError(f'C16.T1: only {len(rec)} recursive tree methods found in Expression')
    for name, f in sorted(rec.items()):
        if _bound_otherwise(M, E, name):
            ctx.add('C16.T1', f'MultipleExpression.{name}', None, M, f'{name} is bound in the class body by something other than a `def` (an assignment, a generated method): what an instance of '
                    f'MultipleExpression runs for {name} is not in a form the rule understands', 'bound otherwise')
            continue
        if name in ALL_MEMBERS:
            g = _override(M, E, name)
            ok = g is None
            narrowed = False
            if g is not None:
                d = _delegation(M, g, name)
                narrowed = d is not None and d['target'] == 'expr'
            ctx.add('C16.T1', f'MultipleExpression.{name}', ok if (ok or narrowed) else None, f, f'{name} visits all members by design ({ALL_MEMBERS[name]})' if ok else
                    (f'{name} must visit every member ({ALL_MEMBERS[name]}) but MultipleExpression overrides it and forwards to the selected member only' if narrowed
                     else f'{name} is listed as visiting all members but MultipleExpression overrides it'), 'all-members', positive=narrowed)
            continue
        g = _override(M, E, name)
        if g is None:
            ctx.add('C16.T1', f'MultipleExpression.{name}', False, f, f'Expression.{name} recurses over get_children(), which for a catalog are the children of the selected member: the selected member itself is skipped; MultipleExpression must override {name}', 'missing override', positive=True)
            continue
        ok, why = _judge_delegation(M, g, name, f.positional_params()[1:])
        body = [unparse(s) for s in g.body]
        ctx.add('C16.T1', f'MultipleExpression.{name}', ok, g, f'{name} forwards to the selected member with ({", ".join(g.positional_params()[1:])})' if ok else (why or f'{name}: the delegation to the selected member is not in a recognised form: {body}'), str(body), positive=ok is False)
    for name in ACCESSORS:
        g = _override(M, E, name)
        if _bound_otherwise(M, E, name):
            ctx.add('C16.T1', f'MultipleExpression.{name}', None, M, f'{name} is bound in the class body by something other than a `def`: what answers for the catalog is not in a form the rule understands', name)
            continue
        if g is None:
            ctx.add('C16.T1', f'MultipleExpression.{name}', False, M, f'{name} is not overridden in MultipleExpression: the base-class version answers for the catalog node itself, not for the selected member', name, positive=True)
            continue
        ok, why = _judge_delegation(M, g, name, [])
        ctx.add('C16.T1', f'MultipleExpression.{name}', ok, g, f'{name} is answered by the selected member' if ok else (why or f'{name}: the delegation to the selected member is not in a recognised form'), name, positive=ok is False)
    ctx.floor('C16.T1', 20)

    cf = prog.module('configuration')
    C = cf.classes['Configuration']
    setter = C.methods.get('selections.setter')
    ctx.need(setter is not None, 'Configuration.selections setter')
    body = [unparse(s) for s in setter.body]
    p = setter.positional_params()[1]
    ok = body[:3] == [f'self.__selections = sorted({p})', 'self.__check_list_validity()', 'self.string_id = self.get_string_id()']
    ctx.add('C16.T2', 'Configuration.selections', ok, setter, 'selections are sorted, checked for duplicate controllers, then the string id is computed' if ok else f'setter: {body}', str(body))
    init = C.methods['__init__']
    ok = 'self.selections: list[SelectionTuple] = list(selections)' in unparse(init.node) or 'self.selections = list(selections)' in unparse(init.node)
    ctx.add('C16.T2', 'Configuration.__init__', ok, init, 'the constructor goes through the sorting setter' if ok else 'the constructor bypasses the sorting setter', 'init')
    gs = C.methods['get_string_id']
    ok = body_is(gs.body, """
_T = [f'{_S.controller}{SELECTION_SEPARATOR}{_S.selection}' for _S in self.selections]
return SEPARATOR.join(_T)
""") is not None or body_is(gs.body, """
return SEPARATOR.join([f'{_S.controller}{SELECTION_SEPARATOR}{_S.selection}' for _S in self.selections])
""") is not None
    ctx.add('C16.T2', 'Configuration.get_string_id', ok, gs, 'id = controller:selection terms joined by the separator, in sorted order' if ok else 'get_string_id changed', 'id')
    fs = C.methods['from_string']
    ok = body_is(fs.body, """
_TERMS = string_id.split(SEPARATOR)
_CFG = {}
for _T in _TERMS:
    try:
        _C, _S = _T.split(SELECTION_SEPARATOR)
    except ValueError as _EXC:
        ___
        raise BiogemeError(__MSG)
    _CFG[_C] = _S
return cls.from_dict(_CFG)
""") is not None
    ctx.add('C16.T2', 'Configuration.from_string', ok, fs, 'from_string splits on the same two separators' if ok else 'from_string no longer mirrors get_string_id', 'from_string')
    fd = C.methods['from_dict']
    ok = has_expr(fd.node, '(SelectionTuple(controller=_C, selection=_S) for _C, _S in dict_of_selections.items())') or has_expr(fd.node, '[SelectionTuple(controller=_C, selection=_S) for _C, _S in dict_of_selections.items()]')
    ctx.add('C16.T2', 'Configuration.from_dict', ok, fd, 'each (controller, selection) pair becomes one selection' if ok else 'from_dict changed', 'from_dict')
    cv = C.methods.get('_Configuration__check_list_validity') or C.methods.get('__check_list_validity')
    ctx.need(cv is not None, 'Configuration.__check_list_validity')
    ok = body_is(cv.body, """
_SEEN = set()
for _I in self.__selections:
    if _I.controller in _SEEN:
        ___
        raise BiogemeError(__MSG)
    _SEEN.add(_I.controller)
""") is not None
    ctx.add('C16.T2', 'Configuration.__check_list_validity', ok, cv, 'a controller listed twice is refused' if ok else 'duplicate controllers are no longer refused', 'dups')
    eq = C.methods['__eq__']
    ok = unparse(eq.body[-1]) == 'return self.string_id == other.string_id' and unparse(C.methods['__hash__'].body[-1]) == 'return hash(self.string_id)'
    ctx.add('C16.T2', 'Configuration.__eq__/__hash__', ok, eq, 'configurations are identified by their canonical id' if ok else 'equality / hash no longer use the canonical id', 'eq')
    mi = M.methods['__init__']
    ok = has(mi.node, """
if SEPARATOR in name or SELECTION_SEPARATOR in name:
    ___
    raise BiogemeError(__MSG)
""")
    ctx.add('C16.T2', 'MultipleExpression.__init__', ok, mi, 'catalog names containing a separator are refused' if ok else 'separator characters are accepted in catalog names', 'sep')
    sep = (unparse(cf.assigns.get('SEPARATOR')), unparse(cf.assigns.get('SELECTION_SEPARATOR')))
    ctx.add('C16.T2', 'separators', sep[0] != sep[1] and len(sep[0]) == 3 and len(sep[1]) == 3, cf, f'two distinct one-character separators {sep}' if sep[0] != sep[1] else 'the two separators coincide', str(sep))
    ctrl = prog.cls('controller', 'Controller')
    ac = ctrl.methods['all_configurations']
    ok = body_is(ac.body, "return {f'{self.controller_name}{SELECTION_SEPARATOR}{_S}' for _S in self.specification_names}") is not None
    ctx.add('C16.T2', 'Controller.all_configurations', ok, ac, 'controller states are written controller:specification like the terms of a configuration id' if ok else 'Controller.all_configurations no longer produces id terms', 'states')

    CC = prog.cls('controller', 'CentralController')
    ci = CC.methods['__init__']
    COUNTS = ["""
if _STATES:
    self._number_of_configurations = reduce(lambda _X, _Y: _X * _Y, map(len, _STATES))
else:
    self._number_of_configurations = 0
""", """
if _STATES:
    self._number_of_configurations = math.prod(map(len, _STATES))
else:
    self._number_of_configurations = 0
""", """
if _STATES:
    self._number_of_configurations = math.prod([len(_S) for _S in _STATES])
else:
    self._number_of_configurations = 0
""", """
if _STATES:
    _T = 1
    for _S in _STATES:
        _T *= len(_S)
    self._number_of_configurations = _T
else:
    self._number_of_configurations = 0
"""]
    b = None
    for count in COUNTS:
        b = b or find(ci.node, """
_SET = expression.get_all_controllers()
self.controllers = tuple(sorted(_SET))
___
_STATES = __STATES
""" + count.strip('\n') + """
___
if self.number_of_configurations() > maximum_number_of_configurations:
    self.all_configurations_ids = None
    self.all_configurations = None
    return
self.all_configurations_ids = __IDS
self.all_configurations = __CONFS
""")
    ok = b is not None
    if ok:
        st = b['_STATES']
        ok = m_node(_parse('[_C.all_configurations() for _C in self.controllers]')[0].value, b['__STATES'][1], {})
        ok = ok and m_node(_parse(f'{{SEPARATOR.join(_C) for _C in product(*{st})}}')[0].value, b['__IDS'][1], {})
        ok = ok and m_node(_parse('{Configuration.from_string(_I) for _I in self.all_configurations_ids}')[0].value, b['__CONFS'][1], {})
    ctx.add('C16.T3', 'CentralController.__init__', ok, ci, 'configurations = product over the states of all controllers of the expression' if ok else 'enumeration of the configurations changed', 'product')
    ctx.add('C16.T3', 'CentralController:count', b is not None, ci, 'number of configurations = product of the controller sizes' if b is not None else 'count of configurations changed', 'count')
    K = prog.cls('catalog', 'Catalog')
    ga = K.methods['get_all_controllers']
    body = [unparse(s) for s in ga.body]
    ok = body_is(ga.body, """
_ALL = {self.controlled_by}
for _E in self.children:
    _ALL |= _E.get_all_controllers()
return _ALL
""") is not None
    part = None
    if not ok:
        # where do the expressions asked for their controllers come from: every member, or the selected one only?
        sources = [_member_source(K, ga.node, x.func.value) for x in ast.walk(ga.node) if isinstance(x, ast.Call) and isinstance(x.func, ast.Attribute) and x.func.attr == 'get_all_controllers'
                   and unparse(x.func.value) not in ('self', 'super()')]
        if sources and all(src == 'selected' for src in sources):
            part = 'the controllers are collected from the currently selected member only (self.selected() / self.get_children() of a catalog), not from every member (self.children): a controller that sits in another alternative is unknown to the central controller, so configurations are missing'
    ctx.add('C16.T3', 'Catalog.get_all_controllers', ok if (ok or part) else None, ga, 'own controller plus the controllers of every member' if ok else (part or f'Catalog.get_all_controllers is not in the expected form: {body}'), str(body), positive=bool(part))
    bg = E.methods['get_all_controllers']
    BASE = """
_ALL = set()
for _E in self.children:
    _ALL |= _E.get_all_controllers()
return _ALL
"""
    ok = body_is(bg.body, BASE) is not None or body_is(bg.body, "if not self.children:\n    return set()" + BASE) is not None
    ctx.add('C16.T3', 'Expression.get_all_controllers', ok, bg, 'union over all children' if ok else 'base get_all_controllers changed', 'base')
    ki = K.methods['__init__']
    ok = has(ki.node, """
for _U, _X in self.named_expressions:
    self.children.append(_X)
""")
    ctx.add('C16.T3', 'Catalog.__init__:children', ok, ki, 'every member is a child of the catalog' if ok else 'members are no longer all registered as children', 'children')
    it = prog.cls('expressions.catalog_iterator', 'SelectedExpressionsIterator')
    STEP = """
_C = next(self.set_iterator)
self.the_expression.configure_catalogs(_C)
"""
    ok = has(it.methods['__init__'].node, "self.set_iterator = iter(configurations)" + STEP) and has(it.methods['__next__'].node, STEP + "return self.the_expression")
    ctx.add('C16.T3', 'SelectedExpressionsIterator', ok, it, 'iteration configures the expression once per configuration of the set' if ok else 'the configuration iterator changed', 'iter')

    inc, dec = CC.methods['increased_controller'], CC.methods['decreased_controller']
    OP = """
self.set_configuration(current_config)
_C = self.dict_of_controllers.get(controller_name)
if _C is None:
    ___
    raise BiogemeError(__MSG)
_C.modify_controller(step=STEP, circular=True)
_N = self.get_configuration()
return (_N, step)
"""
    bd = [unparse(s) for s in dec.body]
    ok = body_is(inc.body, OP.replace('STEP', 'step')) is not None and body_is(dec.body, OP.replace('STEP', '-step')) is not None
    ctx.add('C16.T4', 'increased/decreased_controller', ok, dec, 'decrease = increase with the step negated, both circular' if ok else 'increase and decrease are no longer inverse of each other', str(bd))
    for name in ('increased_controller', 'decreased_controller', 'two_controllers', 'modify_random_controllers'):
        f = CC.methods[name]
        c = cfg_of(f.node)
        own_params = set(f.positional_params()[1:])
        # self.set_configuration(<a parameter, possibly through a local>), positional or by keyword
        setc = [n for n in walk_no_nested(f.node) if isinstance(n, ast.Expr) and isinstance(n.value, ast.Call) and unparse(n.value.func) == 'self.set_configuration'
                and len(n.value.args) + len(n.value.keywords) == 1 and unparse(inline_locals(f.node, (n.value.args + [k.value for k in n.value.keywords])[0])) in own_params]
        # the configuration handed in may also be applied selection by selection
        by_hand = any(isinstance(n, (ast.For, ast.comprehension)) and any(isinstance(x, ast.Attribute) and x.attr == 'selections' and isinstance(x.value, ast.Name) and x.value.id in own_params for x in ast.walk(inline_locals(f.node, n.iter))) for n in ast.walk(f.node))
        mods = [n for n in walk_no_nested(f.node) if isinstance(n, ast.Call) and call_name(n) == 'modify_controller']
        # the configuration is read once, after every move, and is the first element of what every return hands back
        # (through a local or directly)
        getc = [n for n in walk_no_nested(f.node) if isinstance(n, ast.Call) and unparse(n) == 'self.get_configuration()']
        ok = len(setc) == 1 and bool(mods) and len(getc) == 1 and all(c.dominates(c.node_of(setc[0]), c.node_of(m)) for m in mods) and all(seq(m) < seq(getc[0]) for m in mods)
        ok = ok and all(named_args(m).get('circular') == 'True' for m in mods)
        rets = [n for n in walk_no_nested(f.node) if isinstance(n, ast.Return)]
        ok = ok and all(isinstance(r.value, ast.Tuple) and r.value.elts and unparse(inline_locals(f.node, r.value.elts[0])) == 'self.get_configuration()' for r in rets)
        # positive part: no move before the whole configuration handed in has been applied
        if mods and not by_hand and not (len(setc) >= 1 and all(any(c.dominates(c.node_of(s_), c.node_of(m)) for s_ in setc) for m in mods)):
            # the configuration may be applied inside a function that the reference tree does not have (a method of a new base class, a
            # local closure, ...): such a call is followed; one that cannot be read leaves the verdict open
            others = [(n, _applies_configuration(f, n, own_params)) for n in walk_no_nested(f.node) if isinstance(n, ast.Call)]
            through = setc + [n for n, v in others if v is True and c.node_of(n) is not None]
            if any(v is None for _n, v in others) or (through and all(any(c.dominates(c.node_of(s_), c.node_of(m)) for s_ in through) for m in mods)):
                ctx.add('C16.T4', f'CentralController.{name}', None, f, f'{name}: the configuration handed in is applied (or may be) inside a function that is new with respect to the reference tree; '
                        f'{name} no longer has the shape set_configuration / circular moves / get_configuration', name)
                continue
            ctx.add('C16.T4', f'CentralController.{name}:starts-from-argument', False, f,
                    f'{name} moves a controller without first applying the configuration it was given (self.set_configuration(current_config)): the other controllers keep whatever an earlier call left, so the result is not a function of the argument and increase / decrease are not inverse', 'start', positive=True)
            continue
        ctx.add('C16.T4', f'CentralController.{name}', ok, f, 'starts from the given configuration, moves circularly, returns the resulting configuration' if ok else f'{name} no longer has the shape set_configuration / circular moves / get_configuration', name)
    mc = ctrl.methods['modify_controller']
    ok = has(mc.node, """
_SIZE = self.controller_size()
_NEW = self.current_index + step
if circular:
    self.set_index(_NEW % _SIZE)
    return step
""")
    ctx.add('C16.T4', 'Controller.modify_controller', ok, mc, 'the circular move reduces the index modulo the controller size' if ok else 'the circular branch of modify_controller changed', 'mod')
    tc = CC.methods['two_controllers']
    ok = has(tc.node, """
_C1 = self.dict_of_controllers.get(first_controller_name)
___
_C2 = self.dict_of_controllers.get(second_controller_name)
___
_S = step if direction[1] == 'E' else -step
_C1.modify_controller(step=_S, circular=True)
_S = step if direction[0] == 'N' else -step
_C2.modify_controller(step=_S, circular=True)
""") or has(tc.node, """
_C1 = self.dict_of_controllers.get(first_controller_name)
___
_C2 = self.dict_of_controllers.get(second_controller_name)
___
_S1 = step if direction[1] == 'E' else -step
_C1.modify_controller(step=_S1, circular=True)
_S2 = step if direction[0] == 'N' else -step
_C2.modify_controller(step=_S2, circular=True)
""")
    ctx.add('C16.T4', 'CentralController.two_controllers:directions', ok, tc, 'E/W moves the first controller, N/S the second, opposite directions are opposite steps' if ok else 'directions of two_controllers changed', 'dir')

    sel = K.methods['selected']
    st_ = _statements(sel.body)
    rv = inline_locals(sel.node, st_[-1].value) if st_ and isinstance(st_[-1], ast.Return) and st_[-1].value is not None else None
    ok = rv is not None and unparse(rv) == 'self.named_expressions[self.controlled_by.current_index]' and all(isinstance(x, (ast.Assign, ast.AnnAssign)) for x in st_[:-1])
    stale = None
    if not ok and rv is not None and isinstance(rv, ast.Subscript) and unparse(rv.value) == 'self.named_expressions' and _own_state_only(K, rv.slice):
        stale = f'the catalog picks its member with `{unparse(rv.slice)}`, built from its own attributes only, not with the current index of its controller (self.controlled_by.current_index): moving the controller does not change the selected member'
    ctx.add('C16.T5', 'Catalog.selected', ok if (ok or stale) else None, sel, 'the member at the current index of the controller' if ok else (stale or 'Catalog.selected changed'), 'selected', positive=bool(stale))
    sn = K.methods['selected_name']
    ok = [unparse(s) for s in sn.body] == ['return self.named_expressions[self.controlled_by.current_index].name']
    ctx.add('C16.T5', 'Catalog.selected_name', ok, sn, 'name of the member at the current index' if ok else 'Catalog.selected_name changed', 'selected_name')
    b = find(ki.node, """
_NAMES = __NAMES
if controlled_by is None:
    ___
    self.controlled_by = Controller(controller_name=__CN, specification_names=_NAMES)
else:
    self.controlled_by = controlled_by
    ___
    if __CMP:
        ___
        raise BiogemeError(__MSG)
""")

    ok = None
    why = 'shape not recognised - expected: names = [member names]; own controller built from them, or a shared controller whose specification_names are compared with them'
    if b is not None and m_node(_parse('[_N.name for _N in self.named_expressions]')[0].value, b['__NAMES'][1], {}) and unparse(inline_locals(ki.node, b['__CN'][1])) == 'catalog_name':
        cmp_ = inline_locals(ki.node, b['__CMP'][1])
        txt = unparse(cmp_)
        names_txt = unparse(inline_locals(ki.node, ast.Name(id=b['_NAMES'], ctx=ast.Load())))
        good = {names_txt, b['_NAMES']}

        def side(e):
            while isinstance(e, ast.Call) and isinstance(e.func, ast.Name) and e.func.id in ('list', 'tuple') and len(e.args) == 1 and not e.keywords:
                e = e.args[0]
            t = unparse(e)
            return 'names' if t in good else 'ctrl' if t in ('controlled_by.specification_names', 'self.controlled_by.specification_names') else None

        def atom(e):
            """'ordered' / 'unordered' comparison of the catalog names with the controller names, or None"""
            if not (isinstance(e, ast.Compare) and len(e.ops) == 1 and isinstance(e.ops[0], (ast.Eq, ast.NotEq))):
                return None
            l, r = e.left, e.comparators[0]
            if {side(l), side(r)} == {'names', 'ctrl'}:
                return 'ordered'
            wrapped = [x.args[0] for x in (l, r) if isinstance(x, ast.Call) and isinstance(x.func, (ast.Name, ast.Attribute)) and (x.func.id if isinstance(x.func, ast.Name) else x.func.attr) in ('set', 'sorted', 'frozenset', 'Counter')
                       and len(x.args) == 1 and not x.keywords]
            if len(wrapped) == 2 and {side(wrapped[0]), side(wrapped[1])} == {'names', 'ctrl'}:
                return 'unordered'
            return None

        def refuses_permutation(e):
            """value of the refusal condition when the controller lists the names of the catalog in another order (True / False / None = not determined)"""
            if isinstance(e, ast.UnaryOp) and isinstance(e.op, ast.Not):
                v = refuses_permutation(e.operand)
                return None if v is None else not v
            if isinstance(e, ast.BoolOp):
                vals = [refuses_permutation(v) for v in e.values]
                absorbing = isinstance(e.op, ast.Or)
                if any(v is absorbing for v in vals):
                    return absorbing
                return (not absorbing) if all(v is (not absorbing) for v in vals) else None
            k = atom(e)
            if k is None:
                return None
            differ = k == 'ordered'  # as sequences they differ, as sets / sorted lists they are equal
            return differ if isinstance(e.ops[0], ast.NotEq) else not differ

        if atom(cmp_) == 'ordered' and isinstance(cmp_.ops[0], ast.NotEq) and {unparse(cmp_.left), unparse(cmp_.comparators[0])} & {'list(controlled_by.specification_names)', 'list(self.controlled_by.specification_names)'}:
            ok = True
        elif refuses_permutation(cmp_) is False:
            ok, why = False, f'the names of a catalog and of its shared controller are compared without their order ({txt}): a controller that lists the same names in another order is accepted; members are selected by position, so catalogs sharing a controller may take different alternatives under one configuration'
    ctx.add('C16.T5', 'Catalog.__init__:controller', ok, ki, 'an own controller lists the member names; a shared one must list exactly the same names in the same order' if ok else why, 'compat', positive=ok is False)
    si = ctrl.methods['set_index']
    ok = has(si.node, """
if index < 0 or index >= self.controller_size():
    ___
    raise BiogemeError(__MSG)
self.current_index = index
""")
    ctx.add('C16.T5', 'Controller.set_index', ok, si, 'an index outside the controller is refused' if ok else 'set_index no longer validates the index', 'set_index')
    sname = ctrl.methods['set_name']
    ok = body_is(sname.body, """
_I = self.dict_of_index.get(name)
if _I is None:
    ___
    raise BiogemeError(__MSG)
self.set_index(_I)
""") is not None
    ctx.add('C16.T5', 'Controller.set_name', ok, sname, 'a specification is selected by name through the name->index table' if ok else 'set_name changed', 'set_name')
    cinit = ctrl.methods['__init__']
    ok = has(cinit.node, 'self.dict_of_index = {_N: _I for _I, _N in enumerate(self.specification_names)}')
    ctx.add('C16.T5', 'Controller.__init__', ok, cinit, 'name->index table enumerates the specification names' if ok else 'name->index table changed', 'table')
    sc = CC.methods['set_configuration']
    b = body_is(sc.body, """
_SET = __INIT
for _S in configuration.selections:
    _C = self.dict_of_controllers.get(_S.controller)
    if _C is None:
        ___
        raise BiogemeError(__M1)
    _C.set_name(_S.selection)
    _SET[_S.controller] = True
_MISSING = __MISS
if _MISSING:
    ___
    raise BiogemeError(__M2)
""")
    ok = b is not None and m_node(_parse('{_K.controller_name: False for _K in self.controllers}')[0].value, b['__INIT'][1], {}) \
        and m_node(_parse(f'[_N for _N, _D in {b["_SET"]}.items() if not _D]')[0].value, b['__MISS'][1], {})
    ctx.add('C16.T5', 'CentralController.set_configuration', ok, sc, 'every selection is applied to the controller of that name; unknown or missing controllers are refused' if ok else 'set_configuration changed', 'set_configuration')
    gc = CC.methods['get_configuration']
    ok = body_is(gc.body, """
_S = (SelectionTuple(controller=_C.controller_name, selection=_C.current_name()) for _C in self.controllers)
return Configuration(_S)
""") is not None or body_is(gc.body, """
_S = [SelectionTuple(controller=_C.controller_name, selection=_C.current_name()) for _C in self.controllers]
return Configuration(_S)
""") is not None
    ctx.add('C16.T5', 'CentralController.get_configuration', ok, gc, 'one selection per controller: its name and its current specification' if ok else 'get_configuration changed', 'get_configuration')
    cn = ctrl.methods['current_name']
    ok = [unparse(s) for s in cn.body] == ['return self.specification_names[self.current_index]']
    ctx.add('C16.T5', 'Controller.current_name', ok, cn, 'current specification = names[current index]' if ok else 'current_name changed', 'current_name')
    cfgc = E.methods['configure_catalogs']
    ok = 'self.central_controller.set_configuration(configuration)' in unparse(cfgc.node)
    ctx.add('C16.T5', 'Expression.configure_catalogs', ok, cfgc, 'configure_catalogs goes through the central controller' if ok else 'configure_catalogs changed', 'configure')
    # layout writer <-> index reader of the generic / alternative-specific parameters
    SP = prog.cls('catalog', 'SegmentedParameters')
    spi, gi = SP.methods['__init__'], SP.methods['get_index']
    bl = find(spi.node, """
self.beta_parameters = _B
self.all_parameters = _B.copy()
self.alternatives = _A
self.all_parameters += [Beta(f'{_X.name}_{_Y}', _X.initValue, _X.lb, _X.ub, _X.status) for __G1 in __IT1 for __G2 in __IT2]
""")
    br = find(gi.node, """
if alternative is None:
    return beta_index
_K = self.alternatives.index(alternative)
return beta_index + (_K + 1) * len(self.beta_parameters)
""")
    if bl is None or br is None:
        ctx.add('C16.T6', 'SegmentedParameters:layout', None, spi, 'the construction of the parameter list or get_index is not in the expected form (generic parameters, then one block per alternative; index = beta_index + (alt_index + 1) * number of parameters)', 'layout')
    else:
        def role(e):
            """what a loop iterates: 'alts' / 'betas' (through locals and order-preserving copies), None = something else"""
            e = inline_locals(spi.node, e)
            while True:
                if isinstance(e, ast.Call) and isinstance(e.func, ast.Name) and e.func.id in ('list', 'tuple', 'iter') and len(e.args) == 1 and not e.keywords:
                    e = inline_locals(spi.node, e.args[0])
                elif isinstance(e, ast.Call) and isinstance(e.func, ast.Attribute) and e.func.attr == 'copy' and not e.args and not e.keywords:
                    e = e.func.value
                elif isinstance(e, ast.Subscript) and unparse(e.slice) == ':':
                    e = e.value
                else:
                    break
            t = unparse(e)
            return 'alts' if t in ('self.alternatives', bl['_A']) else 'betas' if t in ('self.beta_parameters', bl['_B']) else None

        outer, inner = unparse(bl['__IT1'][1]), unparse(bl['__IT2'][1])
        r1, r2 = role(bl['__IT1'][1]), role(bl['__IT2'][1])
        g1, g2 = unparse(bl['__G1'][1]), unparse(bl['__G2'][1])
        ok = (r1, r2) == ('alts', 'betas') and g1 == bl['_Y'] and g2 == bl['_X']
        # the contradiction is the nesting: the parameter loop outside, the alternative loop inside
        swapped = (r1, r2) == ('betas', 'alts') and g1 == bl['_X'] and g2 == bl['_Y']
        ctx.add('C16.T6', 'SegmentedParameters:layout', ok if (ok or swapped) else None, spi, 'the list holds the generic parameters, then one block per alternative; get_index addresses block alt_index + 1, entry beta_index' if ok else
                (f'the alternative-specific parameters are created by `for {g1} in {outer} for {g2} in {inner}`, i.e. one block per parameter (the loop over the parameters is the outer one), but get_index reads entry '
                 'beta_index of the block of the alternative (beta_index + (alt_index + 1) * number of parameters): with two or more parameters the catalogs receive the parameter of another coefficient / alternative' if swapped else
                 f'the loops that create the alternative-specific parameters (`for {g1} in {outer} for {g2} in {inner}`) are not in the expected form'), f'{outer}/{inner}', positive=swapped)
    # note outside the stated property
    mr = CC.methods['modify_random_controllers']
    if 'the_modification = 1 if increase else 1' in unparse(mr.node):
        ctx.note('controller.modify_random_controllers: `1 if increase else 1` - the "decrease several" operator increases (the result is still a valid configuration; outside the stated property)')


def _selected_part(M, func: ast.AST, e: ast.expr, depth: int = 6) -> str | None:
    """what `e`, evaluated in method `func` of MultipleExpression, denotes: 'pair' = the NamedExpression self.selected(), 'expr' = its
    expression, 'name' = its name; None = something else / not established"""
    if depth == 0:
        return None
    if isinstance(e, ast.Call) and not e.args and not e.keywords and isinstance(e.func, ast.Attribute) and unparse(e.func.value) == 'self':
        if e.func.attr == 'selected':
            return 'pair'
        h = M.resolve(e.func.attr)
        if h is None or e.func.attr in ('get_children', 'get_id', 'get_value', 'get_signature') or len(h.positional_params()) != 1:
            return None
        # an own accessor of the class: what its single return hands back
        rets = [n for n in walk_no_nested(h.node) if isinstance(n, ast.Return)]
        st = _statements(h.body)
        if len(rets) != 1 or not st or st[-1] is not rets[0] or rets[0].value is None or not all(isinstance(x, (ast.Assign, ast.AnnAssign)) for x in st[:-1]):
            return None
        return _selected_part(M, h.node, rets[0].value, depth - 1)
    if isinstance(e, ast.Subscript):
        base = _selected_part(M, func, e.value, depth - 1)
        if base == 'pair' and isinstance(e.slice, ast.Constant) and isinstance(e.slice.value, int) and not isinstance(e.slice.value, bool):
            return {0: 'name', -2: 'name', 1: 'expr', -1: 'expr'}.get(e.slice.value)
        return None
    if isinstance(e, ast.Attribute):
        base = _selected_part(M, func, e.value, depth - 1)
        if base == 'pair':
            return {'name': 'name', 'expression': 'expr'}.get(e.attr)
        return None
    if isinstance(e, ast.Name):
        a = func.args
        if e.id in {x.arg for x in a.posonlyargs + a.args + a.kwonlyargs}:
            return None
        found = []
        for n in walk_no_nested(func):
            tg, val = [], None
            if isinstance(n, ast.Assign):
                tg, val = n.targets, n.value
            elif isinstance(n, ast.AnnAssign):
                tg, val = [n.target], n.value
            elif isinstance(n, (ast.AugAssign, ast.NamedExpr)):
                tg, val = [n.target], None
            elif isinstance(n, (ast.For, ast.comprehension)):
                tg, val = [n.target], None
            elif isinstance(n, ast.With):
                tg, val = [it.optional_vars for it in n.items if it.optional_vars is not None], None
            for t in tg:
                if isinstance(t, ast.Name) and t.id == e.id:
                    found.append((val, None))
                elif isinstance(t, (ast.Tuple, ast.List)):
                    for i, x in enumerate(t.elts):
                        if isinstance(x, ast.Name) and x.id == e.id:
                            found.append((val, i if len(t.elts) == 2 else 'other'))
                        elif any(isinstance(y, ast.Name) and y.id == e.id for y in ast.walk(x)):
                            found.append((None, None))
        if len(found) != 1 or found[0][0] is None:
            return None
        val, idx = found[0]
        base = _selected_part(M, func, val, depth - 1)
        if idx is None:
            return base
        return {0: 'name', 1: 'expr'}.get(idx) if base == 'pair' else None
    return None


def _own_state_only(K, e: ast.expr) -> bool:
    """e is built from constants and plain instance attributes of the catalog itself (self.X with X neither a method nor a property of
    the class or its bases, and not the controller), possibly through getattr(self, 'X', default)"""
    def plain(attr: str) -> bool:
        return attr != 'controlled_by' and K.resolve(attr) is None and not any(attr in c.assigns for c in K.mro())

    seen_attr = False
    stack = [e]
    while stack:
        x = stack.pop()
        if isinstance(x, ast.Constant):
            continue
        if isinstance(x, ast.Attribute) and unparse(x.value) == 'self' and plain(x.attr):
            seen_attr = True
            continue
        if isinstance(x, ast.Call) and unparse(x.func) == 'getattr' and len(x.args) in (2, 3) and unparse(x.args[0]) == 'self' and isinstance(x.args[1], ast.Constant) \
                and isinstance(x.args[1].value, str) and plain(x.args[1].value) and all(isinstance(a, ast.Constant) for a in x.args[2:]):
            seen_attr = True
            continue
        if isinstance(x, (ast.BinOp, ast.UnaryOp)):
            stack += [c for c in ast.iter_child_nodes(x) if isinstance(c, ast.expr)]
            continue
        return False
    return True if seen_attr or isinstance(e, ast.Constant) else False


def _member_source(K, func: ast.AST, recv: ast.expr) -> str | None:
    """where the receiver of a recursive call in a method of the catalog comes from: 'members' (every member: self.children /
    self.named_expressions), 'selected' (the selected member or its children), None = not established"""
    def of_iterable(it: ast.expr, target: ast.expr, name: str) -> str | None:
        it = inline_locals(func, it)
        while isinstance(it, ast.Call) and isinstance(it.func, ast.Name) and it.func.id in ('list', 'tuple', 'iter', 'set') and len(it.args) == 1:
            it = inline_locals(func, it.args[0])
        t = unparse(it)
        if t == 'self.children' and isinstance(target, ast.Name):
            return 'members'
        if t in ('self.named_expressions', 'self.get_iterator()'):
            return 'members'
        if isinstance(it, ast.Call) and isinstance(it.func, ast.Attribute) and it.func.attr == 'get_children' and not it.args \
                and (unparse(it.func.value) == 'self' or _selected_part(K, func, it.func.value) == 'expr'):
            return 'selected'
        return None

    if _selected_part(K, func, recv) == 'expr':
        return 'selected'
    base = recv
    while isinstance(base, (ast.Attribute, ast.Subscript)):
        base = base.value
    if not isinstance(base, ast.Name):
        return None
    binders = []
    for n in ast.walk(func):
        if isinstance(n, (ast.For, ast.comprehension)) and any(isinstance(x, ast.Name) and x.id == base.id for x in ast.walk(n.target)):
            binders.append(n)
        elif isinstance(n, (ast.Assign, ast.AnnAssign, ast.AugAssign, ast.NamedExpr)) and any(
                isinstance(x, ast.Name) and x.id == base.id for t in (n.targets if isinstance(n, ast.Assign) else [n.target]) for x in ast.walk(t)):
            return None
    if len(binders) != 1:
        return None
    return of_iterable(binders[0].iter, binders[0].target, base.id)


def _statements(body: list) -> list:
    return [x for x in body if not (isinstance(x, ast.Expr) and isinstance(x.value, ast.Constant))]


def _delegation(M, g, name: str) -> dict | None:
    """the shape `<locals>; [return] R.name(args)` of an override: the final call, its receiver and what the receiver denotes
    ('expr' = the selected expression, 'fixed' = one member chosen by a constant position, 'base' = the base-class version, None)"""
    st = _statements(g.body)
    if not st or not all(isinstance(x, (ast.Assign, ast.AnnAssign)) and all(isinstance(t, (ast.Name, ast.Tuple)) for t in (x.targets if isinstance(x, ast.Assign) else [x.target])) for x in st[:-1]):
        return None
    last = st[-1]
    c = last.value if isinstance(last, (ast.Return, ast.Expr)) else None
    if isinstance(last, ast.Return) and isinstance(c, ast.Name):
        # `r = E.name(args)` then `return r`
        held = [x for x in st[:-1] if isinstance(x, (ast.Assign, ast.AnnAssign)) and any(isinstance(t, ast.Name) and t.id == c.id for t in (x.targets if isinstance(x, ast.Assign) else [x.target]))]
        if len(held) == 1 and held[0] is st[-2] and isinstance(held[0].value, ast.Call):
            c, st = held[0].value, st[:-2] + [last]
    if not (isinstance(c, ast.Call) and isinstance(c.func, ast.Attribute) and c.func.attr == name):
        return None
    recv = c.func.value
    target = _selected_part(M, g.node, recv)
    if target is None:
        r = inline_locals(g.node, recv)
        # through a tuple unpacking the inliner leaves the name: resolve `_, e = X` by hand for the fixed-member form
        if isinstance(r, ast.Name):
            for n in walk_no_nested(g.node):
                if isinstance(n, ast.Assign) and len(n.targets) == 1 and isinstance(n.targets[0], ast.Tuple) and len(n.targets[0].elts) == 2 \
                        and isinstance(n.targets[0].elts[1], ast.Name) and n.targets[0].elts[1].id == r.id:
                    r = inline_locals(g.node, n.value)
        x = r
        while isinstance(x, (ast.Attribute, ast.Subscript)) and not (isinstance(x, ast.Subscript) and unparse(x.value) in ('self.named_expressions', 'self.children', 'self.list_of_named_expressions')):
            if isinstance(x, ast.Subscript) and not (isinstance(x.slice, ast.Constant) and x.slice.value in (0, 1, -1)):
                break
            if isinstance(x, ast.Attribute) and x.attr != 'expression':
                break
            x = x.value
        if isinstance(x, ast.Subscript) and unparse(x.value) in ('self.named_expressions', 'self.children', 'self.list_of_named_expressions') and isinstance(x.slice, ast.Constant) and isinstance(x.slice.value, int):
            target = 'fixed'
        elif unparse(r) == 'super()' or (isinstance(r, ast.Name) and r.id == 'Expression' and c.args and unparse(c.args[0]) == 'self'):
            target = 'base'
    return {'call': c, 'recv': recv, 'target': target, 'prefix': st[:-1], 'last': last, 'resolved': unparse(r) if target in ('fixed', 'base') else unparse(recv)}


def _judge_delegation(M, g, name: str, base_params: list[str]) -> tuple[bool | None, str]:
    """(True, '') the override hands the call to the selected expression with its own parameters in order; (False, why) it contradicts
    the property (fixed member, base class, permuted parameters, all members returned); (None, '') the form is not recognised"""
    params = g.positional_params()[1:]
    d = _delegation(M, g, name)
    if d is None:
        st = _statements(g.body)
        if name == 'get_children' and len(st) == 1 and isinstance(st[0], ast.Return) and st[0].value is not None \
                and unparse(inline_locals(g.node, st[0].value)) in ('self.children', 'list(self.children)', '[_e for _, _e in self.named_expressions]'):
            return False, 'get_children returns every member of the catalog (self.children) instead of the children of the selected member: the recursive tree methods then walk all the alternatives, not the configured specification'
        return None, ''
    if d['target'] == 'fixed':
        return False, f'{name} is forwarded to a member chosen by a constant position ({d["resolved"]}), not to the selected member self.selected(): the answer does not follow the configuration'
    if d['target'] == 'base':
        return False, f'{name} hands over to the base-class version, which recurses over get_children(), i.e. below the selected member: the selected member itself is skipped'
    if d['target'] != 'expr':
        return None, ''
    if not all(_selected_part(M, g.node, x.value) is not None for x in d['prefix'] if x.value is not None):
        return None, ''
    c = d['call']
    if any(isinstance(a, ast.Starred) for a in c.args) or any(k.arg is None for k in c.keywords):
        return None, ''
    if params != base_params:
        return None, ''
    if len(c.args) + len(c.keywords) != len(params) or not all(k.arg in base_params for k in c.keywords):
        return None, ''
    given = {base_params[i]: unparse(inline_locals(g.node, a)) for i, a in enumerate(c.args)}
    for k in c.keywords:
        if k.arg in given:
            return None, ''
        given[k.arg] = unparse(inline_locals(g.node, k.value))
    if all(given.get(p_) == p_ for p_ in params):
        return True, ''
    if sorted(given.values()) == sorted(params):
        swapped = ', '.join(f'{v} as {k}' for k, v in given.items() if k != v)
        return False, f'{name} forwards its parameters to the selected member in another order ({swapped})'
    return None, ''


_M = 'src/biogeme/expressions/multiple_expressions.py'
_C = 'src/biogeme/controller.py'
_F = 'src/biogeme/configuration.py'
_K = 'src/biogeme/catalog.py'
MUTANTS = [
    dict(name='MultipleExpression.check_rv override removed', rule='C16.T1', file=_M,
         old='    def check_rv(self) -> set[str]:\n        """Set of random variables defined outside of \'Integrate\'\n\n        :return: List of names of variables\n        :rtype: set(str)\n        """\n        _, expr = self.selected()\n        return expr.check_rv()\n\n', new=''),
    dict(name='pre-fix: audit override missing', rule='C16.T1', file=_M,
         old='    def audit(self, database=None) -> tuple[list[str], list[str]]:\n        """Performs various checks on the selected expression.\n\n        :param database: database object\n        :return: tuple list_of_errors, list_of_warnings\n        """\n        _, expr = self.selected()\n        return expr.audit(database)\n\n', new=''),
    dict(name='fix_betas forwards prefix as suffix', rule='C16.T1', file=_M, old='        return expr.fix_betas(beta_values, prefix, suffix)', new='        return expr.fix_betas(beta_values, suffix, prefix)'),
    dict(name='get_children returns the members', rule='C16.T1', file=_M, old='        _, expr = self.selected()\n        return expr.get_children()', new='        return self.children'),
    dict(name='selections no longer sorted', rule='C16.T2', file=_F, old='        self.__selections = sorted(the_list)', new='        self.__selections = list(the_list)'),
    dict(name='from_string splits terms on the selection separator', rule='C16.T2', file=_F, old='        terms = string_id.split(SEPARATOR)', new='        terms = string_id.split(SELECTION_SEPARATOR)'),
    dict(name='duplicate controllers accepted', rule='C16.T2', file=_F, old='        self.__check_list_validity()\n', new=''),
    dict(name='catalog does not report its own controller', rule='C16.T3', file=_K, old='        all_controllers = {self.controlled_by}', new='        all_controllers = set()'),
    dict(name='enumeration zips instead of product', rule='C16.T3', file=_C, old='            for combination in product(*all_controllers_states)', new='            for combination in zip(*all_controllers_states)'),
    dict(name='decrease does not negate the step', rule='C16.T4', file=_C, old='        the_controller.modify_controller(step=-step, circular=True)', new='        the_controller.modify_controller(step=step, circular=True)'),
    dict(name='decrease is not circular', rule='C16.T4', file=_C, old='        the_controller.modify_controller(step=-step, circular=True)', new='        the_controller.modify_controller(step=-step, circular=False)'),
    dict(name='circular move forgets the modulo', rule='C16.T4', file=_C, old='            self.set_index(new_index % the_size)', new='            self.set_index(min(new_index, the_size - 1))'),
    dict(name='increase does not start from the given configuration', rule='C16.T4', file=_C,
         old='        self.set_configuration(current_config)\n        the_controller = self.dict_of_controllers.get(controller_name)\n        if the_controller is None:\n            error_msg = f\'Unknown controller {the_controller}\'\n            raise BiogemeError(error_msg)\n        the_controller.modify_controller(step=step, circular=True)',
         new='        the_controller = self.dict_of_controllers.get(controller_name)\n        if the_controller is None:\n            error_msg = f\'Unknown controller {the_controller}\'\n            raise BiogemeError(error_msg)\n        the_controller.modify_controller(step=step, circular=True)'),
    dict(name='catalog selects with its own stale index', rule='C16.T5', file=_K, old='        return self.named_expressions[self.controlled_by.current_index]\n\n    def selected_name', new='        return self.named_expressions[getattr(self, "current_index", 0)]\n\n    def selected_name'),
    dict(name='shared controller compatibility compares sets', rule='C16.T5', file=_K, old='            if names != controller_names:', new='            if set(names) != set(controller_names):'),
    dict(name='incomplete configurations accepted', rule='C16.T5', file=_C, old='        if missing_controllers:\n            error_msg = (\n                f"Incomplete configuration', new='        if False:\n            error_msg = (\n                f"Incomplete configuration'),
]
NEUTRAL = []
