"""C14 - what is written reads back unchanged and never overwrites earlier output (structural clauses)."""

from __future__ import annotations

import ast
import re

from ..cfg import cfg_of
from ..core import seq, AnalysisError, FuncInfo, call_name, const_value, dotted, unparse, walk_no_nested
from ..pattern import body_is, find, find_expr, has, has_expr
from ..report import Ctx

#: write sites that do not take a fresh name from get_new_file_name: reason
EXEMPT = {
    'BIOGEME.calculate_likelihood_and_derivatives': 'the iteration file: a unique temporary file is written and atomically renamed (C15)',
    'Parameters.dump_file': 'the parameter file: written when it does not exist (read_file) or on explicit request',
    'ChoiceSetsGeneration.sample_and_merge': 'the file name is chosen by the caller (constructor argument)',
    'TemporaryFile.__enter__': 'a fresh temporary directory',
}


def write_sites(prog):
    """(function, call node, expression naming the file)"""
    out = []
    for f in prog.all_functions():
        for c in walk_no_nested(f.node):
            if not isinstance(c, ast.Call):
                continue
            name = dotted(c.func) or ''
            if name in ('open', 'os.fdopen', 'io.open') and c.args:
                mode = c.args[1] if len(c.args) > 1 else next((k.value for k in c.keywords if k.arg == 'mode'), None)
                m = None
                try:
                    m = const_value(mode) if mode is not None else 'r'
                except ValueError:
                    m = '?'
                if isinstance(m, str) and any(x in m for x in 'wax+?'):
                    out.append((f, c, c.args[0]))
            elif isinstance(c.func, ast.Attribute) and c.func.attr in ('to_csv', 'to_pickle', 'to_excel', 'to_json', 'to_html', 'to_stata', 'to_parquet', 'to_feather') and c.args:
                out.append((f, c, c.args[0]))
            elif name in ('np.save', 'np.savetxt', 'numpy.save', 'shutil.copy', 'shutil.copyfile', 'os.rename') and c.args:
                pass
    return out


#: obligations whose failure contradicts the property (rule, construct pattern, why); every other failure is 'not recognised'
POSITIVE: list[tuple[str, str, str]] = [
]


def run(ctx: Ctx) -> None:
    ctx.positive_table = list(POSITIVE)
    prog = ctx.prog
    ctx.rule('C14.R1', 'who may write: every write-open (open(..., w/a/x), os.fdopen, DataFrame.to_csv/...) in the package takes its file name from an assignment '
             'name = get_new_file_name(...) that dominates the write in the same function (a remembered name is never reused); frozen exemptions: iteration file, '
             'parameter file, caller-named sampling file, TemporaryFile; get_new_file_name loops while the candidate exists')
    ctx.rule('C14.R2', 'reports list every parameter: the parameter table has one row per estimated parameter and HTML, LaTeX, F12 and the printed form iterate all of it')
    ctx.rule('C14.R3', 're-derivation on load: every normal exit of bioResults.__init__ passes through _calculate_stats; write_pickle dumps exactly self.data')
    ctx.rule('C14.R5', 'writer <-> reader of file names: the patterns with which a model looks for its own files (files_of_type, used by recycle) are the name templates of get_new_file_name '
             '(name.ext, name~NN.ext); a wildcard directly after the model name also matches the files of other models')
    ctx.rule('C14.R4', 'boolean coding and parameter round trip: booleans are written as members of TRUE_STR/FALSE_STR and parsed back iff the declared type is bool; '
             'every other value read from the file is used as it is (only a missing value falls back to the default); for all defaults type and value agree')
    ctx.not_decided += ['equality of re-read values (pickle / TOML library semantics)']
    n = 0
    for f, c, namee in write_sites(prog):
        owner = f.qualname
        n += 1
        if owner in EXEMPT:
            ctx.add('C14.R1', f'{owner}:write', True, (f.file, c.lineno), f'exempt: {EXEMPT[owner]}', 'exempt')
            continue
        cfg = cfg_of(f.node)
        target = unparse(namee)
        here = cfg.node_of(c)
        # where the name comes from: the definitions that REACH the write (copies followed backwards), not every assignment of the function
        orig = [(('unknown' if t == 'remembered' and _may_be_set_by_callee(f, cfg, e, here) else t), e) for t, e in _origins(cfg, namee, here)]
        tags = {t for t, _ in orig}
        ok = tags == {'fresh'}
        why = None
        if not ok and _is_new(f):
            # a function that the reference tree does not have (a helper taken out of a writer: a method of a new base class, a local
            # closure, ...) is read through its callers: the name it opens is the name each of them holds when it calls; judged on its own
            # it contradicts nothing
            via = _origins_through_callers(prog, f, namee) if 'remembered' in tags and tags <= {'remembered', 'fresh'} else None
            if via is not None and via == {'fresh'}:
                ctx.add('C14.R1', f'{owner}:write({target[:40]})', True, (f.file, c.lineno),
                        f'{unparse(c.func)}({target}) with {target} freshly obtained from get_new_file_name by every caller of {f.name}', target)
                continue
            if 'remembered' in tags:
                ctx.add('C14.R1', f'{owner}:write({target[:40]})', None, (f.file, c.lineno),
                        f'{unparse(c.func)}({target}): {f.name} is a new function; where its callers take {target} from is not in a form the rule understands', target)
                continue
        if not ok:
            rem = [e for t, e in orig if t == 'remembered']
            fixed = [e for t, e in orig if t == 'fixed']
            if rem and 'fresh' in tags:
                why = f'the call of get_new_file_name that defines {rem[0]} is not executed on every path to the write: on the others the remembered name is used'
            elif rem:
                why = f'{rem[0]} is not assigned in {f.name} before the write: the file is opened for writing under a name remembered from an earlier call'
            elif fixed:
                why = (f'{target} = {fixed[0][:60]}' if fixed[0] != target else 'the name') + ' is a name built from fixed parts, not a name that get_new_file_name found free'
        ctx.add('C14.R1', f'{owner}:write({target[:40]})', ok if (ok or why) else None, (f.file, c.lineno),
                f'{unparse(c.func)}({target}) with {target} freshly obtained from get_new_file_name' if ok
                else (f'{unparse(c.func)}({target}): {why} - an existing file can be replaced' if why else f'{unparse(c.func)}({target}): where the name comes from is not in a form the rule understands'), target, positive=bool(why))
    ctx.floor('C14.R1', 9)
    g = prog.func('filenames', 'get_new_file_name')
    ok = any(body_is(g.body, f"""
_FN = name + '.' + ext
_F = Path(_FN)
_N = __ZERO
while {test}:
    _FN = __CANDIDATE
    _F = Path(_FN)
    _N += 1
return _FN
""") is not None for test in ('_F.is_file()', '_F.exists()', 'os.path.exists(_FN)', 'os.path.isfile(_FN)'))
    if ok:
        loop = next(x for x in walk_no_nested(g.node) if isinstance(x, ast.While))
        cand = loop.body[0].value
        counter = unparse(next(x for x in loop.body if isinstance(x, ast.AugAssign)).target)
        names = {x.id for x in ast.walk(cand) if isinstance(x, ast.Name)}
        ok = {'name', 'ext', counter} <= names
    # the contradiction: a candidate is declared free by looking its text up in a listing of a directory that does not depend on the name
    blind = None if ok else _free_by_foreign_listing(g)
    ctx.add('C14.R1', 'get_new_file_name', ok, (g.file, blind[0]) if blind else g, 'a candidate name is returned only when no file of that name exists; candidates are numbered' if ok else
            (blind[1] if blind else 'get_new_file_name no longer loops until the name is free'), 'loop', positive=bool(blind))

    BR = prog.cls('results', 'bioResults')
    gp = BR.methods['get_estimated_parameters']
    b = find(gp.node, """
_T = pd.DataFrame(columns=__COLS)
for _B in self.data.betas:
    ___
    _T.loc[_B.name] = pd.Series(__ROW)
return _T
""")
    ok = b is not None
    if ok:
        loops = [x for x in walk_no_nested(gp.node) if isinstance(x, ast.For) and unparse(x.iter) == 'self.data.betas' and unparse(x.target) == b['_B'] and any(unparse(st).startswith(b['_T'] + '.loc[') for st in x.body)]
        ok = len(loops) == 1 and not any(isinstance(x, (ast.Continue, ast.Break, ast.Return)) for x in ast.walk(loops[0]))
        store = [x for x in ast.walk(loops[0]) if isinstance(x, ast.Assign) and unparse(x.targets[0]).startswith(b['_T'] + '.loc[')] if ok else []
        ok = ok and len(store) == 1 and store[0] in loops[0].body
    ctx.add('C14.R2', 'get_estimated_parameters', ok, gp, 'one row per element of data.betas, unconditionally' if ok else 'rows of the parameter table are filtered or keyed differently', 'rows')
    h = BR.methods['get_html']
    ok = has(h.node, """
_T = self.get_estimated_parameters(only_robust)
___
for _N, _V in _T.iterrows():
    ___
""")
    ctx.add('C14.R2', 'get_html', ok, h, 'the HTML report iterates all rows of the parameter table' if ok else 'get_html no longer iterates the parameter table', 'html')
    l = BR.methods['get_latex']
    b = find(l.node, "_T = self.get_estimated_parameters(only_robust)")
    ok = b is not None and (has_expr(l.node, f'{b["_T"]}.style.format(__F).to_latex()') or has_expr(l.node, f'{b["_T"]}.to_latex(float_format=__F)') or has_expr(l.node, f'{b["_T"]}.to_latex()'))
    ctx.add('C14.R2', 'get_latex', ok, l, 'the LaTeX report renders the whole parameter table' if ok else 'get_latex no longer renders the parameter table', 'latex')
    f12 = BR.methods['get_f12']
    ok = has(f12.node, """
_T = self.get_estimated_parameters(False)
_NAMES = _T.index.to_list()
for _N in _NAMES:
    _V = _T.loc[_N]
    ___
""")
    ctx.add('C14.R2', 'get_f12', ok, f12, 'the F12 report iterates all rows of the parameter table' if ok else 'get_f12 no longer iterates all parameters', 'f12')
    s = BR.methods['__str__']
    ok = has_expr(s.node, "'\\n'.join([f'{_B}' for _B in self.data.betas])") or has_expr(s.node, "'\\n'.join((f'{_B}' for _B in self.data.betas))")
    ctx.add('C14.R2', 'bioResults.__str__', ok, s, 'the printed form joins all parameters' if ok else '__str__ no longer lists all parameters', 'str')

    init = BR.methods['__init__']
    # this rule reads the class as it is written (the normal form would unfold a private method that is called once into the constructor):
    # the statistics method is identified by what it does - the method(s) of the class that (with the methods they call on self) assign
    # the derived statistics of the raw results - not by its name
    raw = _raw_methods(prog.module('results').src, 'bioResults')
    ctx.need('__init__' in raw, 'bioResults.__init__')
    rinit = raw['__init__']
    cfg = cfg_of(rinit)
    stat = _statistics_methods(raw)
    calls = [x for x in walk_no_nested(rinit) if isinstance(x, ast.Call) and isinstance(x.func, ast.Attribute) and dotted(x.func.value) == 'self' and x.func.attr in stat]
    inline = _stored_statistics(rinit)
    if not stat or not calls or inline:
        ctx.add('C14.R3', 'bioResults.__init__', None, init, 'where the statistics of a results object are recomputed is not in a form the rule understands (' +
                ('no method of bioResults assigns ' + ', '.join(f'self.data.{a}' for a in STATISTICS) if not stat else
                 f'the constructor assigns {sorted(inline)} itself' if inline else f'the constructor does not call {sorted(stat)} directly') + ')', 'stats')
    else:
        from ..cfg import ENTRY
        from .c13 import _guards

        ok = cfg.must_pass(ENTRY, {cfg.node_of(x) for x in calls})
        # a call steered by a flag computed in the constructor: the paths of the graph are not all feasible, nothing is claimed
        local = {d.name for n_ in cfg.nodes() for d in cfg.defs()[n_] if '.' not in d.name}
        flags = set()
        for x in calls:
            st_ = cfg.stmt[cfg.node_of(x)]
            ch = _guards(rinit, st_) if isinstance(st_, ast.stmt) else 'other'
            for t, _pol in (ch if isinstance(ch, list) else []):
                flags |= {y.id for y in ast.walk(t) if isinstance(y, ast.Name)} & local
        names = '/'.join(sorted({x.func.attr for x in calls}))
        # what self.data holds at a normal exit that is reached without the call: an object without results has no statistics to recompute
        # (the statistics method returns at once when self.data is None), so only an exit on which self.data holds results contradicts the property
        # tests on parameters that the constructor never assigns are correlated from one `if` to the next: the paths are followed once per
        # case (each such parameter None / not None) with the branches that the case decides cut; a guard of the call that reads such a
        # parameter in a way the cases do not decide leaves the verdict open
        fixed_params = _unassigned_params(rinit, cfg)
        for x in calls:
            st_ = cfg.stmt[cfg.node_of(x)]
            ch = _guards(rinit, st_) if isinstance(st_, ast.stmt) else 'other'
            for t, _pol in (ch if isinstance(ch, list) else []):
                flags |= {y.id for y in ast.walk(t) if isinstance(y, ast.Name)} & _undecided_names(t, fixed_params)
        if ok:
            skipped, precise = set(), True
        else:
            tested = sorted({y.id for n_ in cfg.nodes() if cfg._kind.get(n_) == 'if' for y in ast.walk(cfg.stmt[n_].test) if isinstance(y, ast.Name)} & fixed_params)
            skipped, precise = set(), True
            if len(tested) > 5:
                tested = []
            for k in range(2 ** len(tested)):
                case = {p_: bool(k >> i & 1) for i, p_ in enumerate(tested)}
                sk, pr = _exit_states_without(cfg, {cfg.node_of(x) for x in calls}, 'self.data', _cut_edges(cfg, case))
                skipped |= sk
                precise = precise and pr
        noop = all(_returns_at_once_when_none(raw[x.func.attr], 'self.data') for x in calls)
        if ok:
            verdict, pos = True, False
        elif 'val' in skipped:
            verdict, pos = (False if precise and not flags else None), precise and not flags
        elif skipped and skipped <= {'none'} and noop:
            verdict, pos = True, False
        else:
            verdict, pos = None, False
        ctx.add('C14.R3', 'bioResults.__init__', verdict, init, (f'statistics are recomputed on every construction, also from a pickle file: every normal exit passes self.{names}()' if ok else
                f'statistics are recomputed on every construction that has results, also from a pickle file: the only exits that pass no call of self.{names}() are those on which self.data is None, '
                f'where self.{names}() returns at once') if verdict else
                (f'a results object can be constructed without recomputing its statistics: some path from the entry of the constructor to a normal exit on which self.data holds results passes no call of self.{names}(), '
                 f'the method that assigns {", ".join("self.data." + a for a in STATISTICS)}' if 'val' in skipped else
                 f'some path of the constructor passes no call of self.{names}(); what self.data holds on it ({sorted(skipped)}) is not in a form the rule understands'), 'stats', positive=pos)
    wp = BR.methods['write_pickle']
    dumps = [x for x in walk_no_nested(wp.node) if isinstance(x, ast.Call) and dotted(x.func) == 'pickle.dump']
    ok = len(dumps) == 1 and unparse(dumps[0].args[0]) == 'self.data'
    ctx.add('C14.R3', 'bioResults.write_pickle', ok, wp, 'the pickle holds exactly the raw results' if ok else f'pickle.dump receives {unparse(dumps[0].args[0]) if dumps else "?"}', 'dump')
    loads = [x for x in walk_no_nested(init.node) if isinstance(x, ast.Assign) and unparse(x.targets[0]) == 'self.data' and isinstance(x.value, ast.Call) and dotted(x.value.func) == 'pickle.load']
    ok = len(loads) >= 1
    ctx.add('C14.R3', 'bioResults.__init__:load', ok, init, 'the pickle is loaded into self.data' if ok else 'pickle no longer loaded into self.data', 'load')

    # the files a model finds again (recycle) are the files it writes: name.ext and name~NN.ext, nothing else
    def shape_of(e, names):
        """a name template as text: the parts that stand for the model name / the extension / a number -> N / E / *"""
        from ..normal import fold_string

        if isinstance(e, ast.BinOp) and isinstance(e.op, ast.Add):
            l_, r_ = shape_of(e.left, names), shape_of(e.right, names)
            return None if l_ is None or r_ is None else l_ + r_
        if isinstance(e, ast.Constant) and isinstance(e.value, str):
            return e.value
        if isinstance(e, ast.JoinedStr):
            out = ''
            for v in e.values:
                t = shape_of(v.value if isinstance(v, ast.FormattedValue) else v, names)
                if t is None:
                    return None
                out += t
            return out
        return names.get(unparse(e))

    gn = prog.func('filenames', 'get_new_file_name')
    fo = prog.cls('biogeme', 'BIOGEME').methods['files_of_type']
    from ..core import inline_locals

    pn, pe = gn.positional_params()[:2]
    counters = {unparse(x.target) for x in walk_no_nested(gn.node) if isinstance(x, ast.AugAssign)}
    wnames = {pn: 'N', pe: 'E', **{c_: '*' for c_ in counters}}
    written = {shape_of(a.value, wnames) for a in walk_no_nested(gn.node) if isinstance(a, ast.Assign) and isinstance(a.value, (ast.JoinedStr, ast.BinOp))}
    ext_p = fo.positional_params()[1]
    globs = [c for c in walk_no_nested(fo.node) if isinstance(c, ast.Call) and dotted(c.func) == 'glob.glob' and c.args]
    def arg_of(c):
        a = c.args[0]
        if isinstance(a, ast.Name):
            # the assignment that reaches the call: the nearest one before it (each branch of files_of_type defines its own)
            defs = [d for d in walk_no_nested(fo.node) if isinstance(d, ast.Assign) and unparse(d.targets[0]) == a.id and seq(d) < seq(c)]
            if defs:
                return max(defs, key=seq).value
        return inline_locals(fo.node, a)

    found = {shape_of(arg_of(c), {'self.modelName': 'N', ext_p: 'E'}) for c in globs}
    found.discard('*.E')  # (the all_files branch)
    if None in written or None in found or not written or not found:
        ctx.add('C14.R5', 'files_of_type:patterns', None, fo, f'name templates not in the expected form: written {sorted(map(str, written))}, searched {sorted(map(str, found))}', 'patterns')
    else:
        # only a search whose result is handed back as it is (returned, concatenated, copied) accuses the pattern: a result that is
        # filtered or looped over before it is used leaves the verdict open
        direct = {shape_of(arg_of(c), {'self.modelName': 'N', ext_p: 'E'}) for c in globs if _returned_as_it_is(fo.node, c)}
        greedy = sorted(t for t in found if t.startswith('N*'))
        if greedy and not any(t in direct for t in greedy):
            ctx.add('C14.R5', 'files_of_type:patterns', None, fo, f'files are searched with the pattern {greedy[0]} (N = model name, E = extension) and the result is processed before it is returned: '
                    f'which files are found is not in a form the rule understands (the names written are {sorted(written)})', str(sorted(found)))
        elif greedy:
            greedy = [t for t in greedy if t in direct]
            ctx.add('C14.R5', 'files_of_type:patterns', False, fo, f'files are searched with the pattern {greedy[0]} (N = model name, E = extension): it also matches the files of every other model whose name begins with this '
                    f'model\'s name; recycle then loads the results of another model. The files of a model are {sorted(written)}', str(sorted(found)), positive=True)
        else:
            ok = found == written
            ctx.add('C14.R5', 'files_of_type:patterns', ok if ok else None, fo, f'the files searched for a model are the files written for it: {sorted(found)}' if ok else
                    f'the patterns searched {sorted(found)} are not in the expected form (the names written are {sorted(written)})', str(sorted(found)))

    pm = prog.module('parameters')
    T = pm.assigns.get('TRUE_STR')
    F = pm.assigns.get('FALSE_STR')
    ctx.need(T is not None and F is not None, 'TRUE_STR / FALSE_STR')
    tvals, fvals = const_tuple(T), const_tuple(F)
    P = prog.cls('parameters', 'Parameters')
    gd = P.methods['generate_document']
    b = find(gd.node, """
for _P in self.all_parameters_dict.values():
    if isinstance(_P.value, bool):
        _V = __T if _P.value else __F
    else:
        _V = _P.value
    _TABLES[_P.section].add(_P.name, _V)
    ___
""")
    ok = False
    m = None
    if b is not None:
        try:
            tv, fv = const_value(b['__T'][1]), const_value(b['__F'][1])
            ok = tv in tvals and fv in fvals

            class _M:
                def group(self, i):
                    return (tv, fv)[i - 1]

            m = _M()
        except ValueError:
            ok = False
    ctx.add('C14.R4', 'Parameters.generate_document', ok, gd, f"booleans are written as '{m.group(1)}'/'{m.group(2)}', members of TRUE_STR/FALSE_STR; other values unchanged" if ok else 'coding of booleans in the parameter file changed', 'gen')
    pb = prog.func('parameters', 'parse_boolean')
    ok = body_is(pb.body, '''
if value in TRUE_STR:
    return True
if value in FALSE_STR:
    return False
___
raise BiogemeError(__MSG)
''') is not None
    ctx.add('C14.R4', 'parse_boolean', ok, pb, 'TRUE_STR -> True, FALSE_STR -> False' if ok else 'parse_boolean changed', 'parse')
    im = P.methods['import_document']
    b = find(im.node, """
for _SN, _ENTRIES in self.document.items():
    for _EN, _EV in _ENTRIES.items():
        ___
        _DEF = self.all_parameters_dict.get(__KEY)
        if _DEF is None:
            ___
            continue
        if __MISSING:
            _VAL = _DEF.value
        elif _DEF.type is bool:
            try:
                _VAL = parse_boolean(_EV)
            except __EXC as _ERR:
                ___
        else:
            _VAL = _EV
        _PT = ParameterTuple(name=_EN, value=_VAL, type=_DEF.type, section=_SN, description=_DEF.description, check=_DEF.check)
        self.add_parameter(_PT)
""")
    ok = False
    det = 'the chain missing -> default / bool -> parse_boolean / else -> as read was restructured'
    if b is None:
        # the same chain entered through the complementary test (`if <value present>: ... else: default`)
        b2 = find(im.node, """
for _SN, _ENTRIES in self.document.items():
    for _EN, _EV in _ENTRIES.items():
        ___
        _DEF = self.all_parameters_dict.get(__KEY)
        if _DEF is None:
            ___
        else:
            if __PRESENT:
                if _DEF.type is bool:
                    try:
                        _VAL = parse_boolean(_EV)
                    except __EXC as _ERR:
                        ___
                else:
                    _VAL = _EV
            else:
                _VAL = _DEF.value
            ___
""")
        if b2 is not None:
            b = b2
            b['__MISSING'] = (None, ast.UnaryOp(op=ast.Not(), operand=b2['__PRESENT'][1]))
    if b is None:
        ctx.add('C14.R4', 'Parameters.import_document', None, im, det, 'restructured')
    else:
        from .c13 import _none_test

        miss = b['__MISSING'][1]
        det = unparse(miss).replace(b['_EV'], 'entry_value')
        ok = _none_test(miss, b['_EV']) is True
        # the contradiction: the test that selects the default also holds for values that can be read from the file
        also = None if ok else _holds_for_a_value(miss, b['_EV'])
        ctx.add('C14.R4', 'Parameters.import_document', ok if (ok or also) else None, im, 'missing -> default; bool -> parse_boolean; anything else is kept as read' if ok else
                (f'the default replaces the value read from the file when `{det}`: {also}; an admissible value may be replaced by the default' if also else
                 f'the test `{det}` that selects the default is not in a form the rule understands (expected: the value is None)'), det, positive=bool(also))
    ap = prog.func('default_parameters', 'all_parameters_tuple')
    npar = 0
    dm = prog.module('default_parameters')
    fields = [n_ for n_, _a, _v in prog.cls('default_parameters', 'ParameterTuple').fields]
    isb = prog.resolve_expr(prog.module('check_parameters'), ast.Name(id='is_boolean', ctx=ast.Load()))
    isb = isb[1] if isb is not None and isb[0] == 'func' else None

    def value_of(e, depth=4):
        """a module-level constant stands for its value"""
        while depth and isinstance(e, ast.Name) and e.id in dm.assigns:
            e, depth = dm.assigns[e.id], depth - 1
        return e

    for c in ast.walk(ap.node):
        if isinstance(c, ast.Call) and call_name(c) == 'ParameterTuple':
            kw = {**dict(zip(fields, c.args)), **{k.arg: k.value for k in c.keywords if k.arg}}
            if not {'name', 'value', 'type', 'check'} <= set(kw):
                continue
            try:
                name = const_value(value_of(kw['name']))
                v = const_value(value_of(kw['value']))
            except ValueError:
                continue
            npar += 1
            ty = unparse(value_of(kw['type']))
            ok = {'bool': isinstance(v, bool), 'int': isinstance(v, int) and not isinstance(v, bool), 'float': isinstance(v, (int, float)) and not isinstance(v, bool), 'str': isinstance(v, str)}.get(ty)
            # the functions of the check tuple, resolved through module constants and import aliases: identities, not texts
            chk = value_of(kw['check'])
            funcs = [prog.resolve_expr(dm, value_of(e)) for e in chk.elts] if isinstance(chk, (ast.Tuple, ast.List)) else None
            if ok is None or isb is None or funcs is None or any(r is None or r[0] != 'func' for r in funcs):
                ctx.add('C14.R4', f'default[{name}]', None, (ap.file, c.lineno), f'{name}: declared {ty}, default {v!r}, check {unparse(kw["check"])[:60]}: the declared type or the functions of the check are not resolved', f'{ty}:{v!r}:?')
                continue
            # a check counts as a boolean check when it is is_boolean or a function whose body tests isinstance(., bool) / calls is_boolean
            def looks_at_bool(fi):
                for x in (y for st in fi.node.body for y in ast.walk(st)):
                    if isinstance(x, ast.Call) and (call_name(x) == 'is_boolean' or (call_name(x) == 'isinstance' and len(x.args) == 2 and any(isinstance(z, ast.Name) and z.id == 'bool' for z in ast.walk(x.args[1])))):
                        return True
                return False

            exact = any(r[1] is isb for r in funcs)
            boolean = exact or any(looks_at_bool(r[1]) for r in funcs)
            # (a check of another type may well look at bool in order to refuse it: only is_boolean itself contradicts a non-boolean declaration)
            okb = boolean if ty == 'bool' else not exact
            ctx.add('C14.R4', f'default[{name}]', ok and okb, (ap.file, c.lineno), f'{name}: declared {ty}, default {v!r}' + ('' if ok and okb else
                    (f' - the default value is not of the declared type' if not ok else f' - declared {ty} but ' + ('checked with is_boolean' if exact else 'is_boolean is not among its checks ' + str([r[1].name for r in funcs])))), f'{ty}:{v!r}:{boolean}', positive=True)
    ctx.floor('C14.R4', 25)


#: derived quantities of a results object that are recomputed from the raw results (likelihood ratio test, rho-square, AIC, BIC, variance-covariance)
STATISTICS = ('likelihoodRatioTest', 'rhoSquare', 'akaike', 'bayesian', 'varCovar')


def _stored_statistics(func_node) -> set[str]:
    return {n.attr for n in walk_no_nested(func_node) if isinstance(n, ast.Attribute) and isinstance(n.ctx, ast.Store) and n.attr in STATISTICS and dotted(n.value) == 'self.data'}


def _raw_methods(src: str, cls_name: str) -> dict:
    """method name -> FunctionDef of a class, parsed from the text of the module without any rewriting"""
    for n in ast.parse(src).body:
        if isinstance(n, ast.ClassDef) and n.name == cls_name:
            return {st.name: st for st in n.body if isinstance(st, (ast.FunctionDef, ast.AsyncFunctionDef))}
    return {}


def _statistics_methods(methods: dict) -> set[str]:
    """names of the methods of the class (the constructor apart) that assign all of STATISTICS, directly or through methods they call on self"""
    direct = {name: _stored_statistics(m) for name, m in methods.items() if name != '__init__'}
    called = {name: {c.func.attr for c in walk_no_nested(m) if isinstance(c, ast.Call) and isinstance(c.func, ast.Attribute) and dotted(c.func.value) == 'self' and c.func.attr in direct}
              for name, m in methods.items() if name != '__init__'}
    total = {k: set(v) for k, v in direct.items()}
    changed = True
    while changed:
        changed = False
        for k in total:
            for c in called[k]:
                if not total[c] <= total[k]:
                    total[k] |= total[c]
                    changed = True
    return {k for k, v in total.items() if set(STATISTICS) <= v}


def _returns_at_once_when_none(method: ast.FunctionDef, attr: str) -> bool:
    """the method does nothing when ``attr`` is None: its first statement (the docstring apart) is `if attr is None: return`,
    or its whole body is `if attr is not None: ...`"""
    from .c13 import _none_test

    body = [st for st in method.body if not (isinstance(st, ast.Expr) and isinstance(st.value, ast.Constant) and isinstance(st.value.value, str))]
    if not body or not isinstance(body[0], ast.If):
        return False
    first, nt = body[0], _none_test(body[0].test, attr)
    if nt is True:
        return len(first.body) == 1 and isinstance(first.body[0], ast.Return) and (first.body[0].value is None or (isinstance(first.body[0].value, ast.Constant) and first.body[0].value.value is None))
    if nt is False:
        return len(body) == 1 and not first.orelse
    return False


def _unassigned_params(func_node, cfg) -> set[str]:
    """parameters of the function that nothing in it assigns (nested functions included): what a test says of them holds to the end"""
    a = func_node.args
    params = {x.arg for x in a.posonlyargs + a.args + a.kwonlyargs} - {'self', 'cls'}
    stored = {n.id for n in ast.walk(func_node) if isinstance(n, ast.Name) and isinstance(n.ctx, (ast.Store, ast.Del))}
    stored |= {d.name for n_ in cfg.nodes() for d in cfg.defs()[n_] if d.kind != 'param'}
    stored |= {x for n in ast.walk(func_node) if isinstance(n, (ast.Global, ast.Nonlocal)) for x in n.names}
    return params - stored


def _decide(test: ast.expr, case: dict):
    """truth value of a test in the case ``case`` (name -> it is None): True / False, None when the case does not decide it"""
    from .c13 import _none_test

    if isinstance(test, ast.UnaryOp) and isinstance(test.op, ast.Not):
        r = _decide(test.operand, case)
        return None if r is None else not r
    if isinstance(test, ast.BoolOp):
        vals = [_decide(v, case) for v in test.values]
        absorbing = isinstance(test.op, ast.Or)
        if any(v is absorbing for v in vals):
            return absorbing
        return None if any(v is None for v in vals) else (not absorbing)
    if isinstance(test, ast.Name):
        return False if case.get(test.id) is True else None
    for p_, is_none in case.items():
        nt = _none_test(test, p_)
        if nt is not None:
            return nt == is_none
    return None


def _undecided_names(test: ast.expr, names: set) -> set[str]:
    """the names of ``names`` that the test reads otherwise than through `name is None` / `name is not None` combined with and / or / not"""
    from .c13 import _none_test

    if isinstance(test, ast.UnaryOp) and isinstance(test.op, ast.Not):
        return _undecided_names(test.operand, names)
    if isinstance(test, ast.BoolOp):
        return {x for v in test.values for x in _undecided_names(v, names)}
    if any(_none_test(test, p_) is not None for p_ in names):
        return set()
    return {y.id for y in ast.walk(test) if isinstance(y, ast.Name)} & names


def _cut_edges(cfg, case: dict) -> set:
    """edges (if node, successor) that are not taken in the case ``case``"""
    cut = set()
    if not case:
        return cut
    for n in cfg.nodes():
        if cfg._kind.get(n) != 'if':
            continue
        st = cfg.stmt[n]
        v = _decide(st.test, case)
        if v is None:
            continue
        inside = {cfg.node_of(x) for b in st.body for x in ast.walk(b) if isinstance(x, (ast.stmt, ast.ExceptHandler))} - {None, n}
        succ = list(cfg.g.successors(n))
        if not inside or not any(s in inside for s in succ) or all(s in inside for s in succ):
            continue
        for s in succ:
            if (s in inside) != v:
                cut.add((n, s))
    return cut


def _exit_states_without(cfg, avoid: set, attr: str, cut: set = frozenset()) -> tuple[set, bool]:
    """What ``attr`` may hold at the normal exit along the paths that pass none of the nodes ``avoid``:
    'unset' never assigned, 'none' the constant None, 'val' anything else that was assigned, 'any' unknown (a call that may assign it).
    Tests `attr is None` / `attr is not None` cut the paths on which they cannot hold.  The second result is False when a test that reads
    ``attr`` could not be used for that (the set may then contain values of infeasible paths)."""
    from ..cfg import ENTRY, EXIT
    from .c13 import _none_test

    g = cfg.g
    holder = attr.rsplit('.', 1)[0]
    precise = True
    true_entry: dict[int, tuple[int, bool]] = {}
    for n in cfg.nodes():
        st = cfg.stmt[n]
        k = cfg._kind.get(n)
        test = st.test if k in ('if', 'while') else None
        if test is None or not any(dotted(x) == attr for x in ast.walk(test) if isinstance(x, ast.Attribute)):
            continue
        nt = _none_test(test, attr)
        first = cfg.node_of(st.body[0]) if k == 'if' and nt is not None else None
        if first is None or first == n:
            precise = False
            continue
        true_entry[n] = (first, nt)

    def transfer(n: int, inn: frozenset) -> frozenset:
        st = cfg.stmt[n]
        if isinstance(st, str):
            return inn
        ds = [d for d in cfg.defs()[n] if d.name == attr]
        if ds:
            return frozenset('none' if d.kind == 'assign' and isinstance(d.value, ast.Constant) and d.value.value is None else 'val' for d in ds)
        if any(d.name == holder for d in cfg.defs()[n]):
            return frozenset({'any'})
        own = [st.test] if cfg._kind.get(n) in ('if', 'while') else [st.iter] if cfg._kind.get(n) == 'for' else [i.context_expr for i in st.items] if cfg._kind.get(n) == 'with' else [] if cfg._kind.get(n) in ('def', 'except') else [st]
        for c in (x for p in own for x in ast.walk(p) if isinstance(x, ast.Call)):
            if (isinstance(c.func, ast.Attribute) and dotted(c.func.value) in (holder, attr)) or any(dotted(a) in (holder, attr) for a in list(c.args) + [kw.value for kw in c.keywords]) \
                    or call_name(c) in ('setattr', 'delattr'):
                return frozenset({'any'})
        return inn

    IN: dict[int, frozenset] = {n: frozenset() for n in g.nodes}
    IN[ENTRY] = frozenset({'unset'})
    work = [ENTRY]
    while work:
        n = work.pop()
        if n in avoid:
            continue
        out = transfer(n, IN[n])
        for s in g.successors(n):
            if (n, s) in cut:
                continue
            flow = out
            if cfg._kind.get(s) == 'except':
                flow = out | IN[n]  # the statement may raise before it stores
            elif n in true_entry:
                first, nt = true_entry[n]
                is_none = (s == first) == nt  # this edge is taken when attr is None
                flow = frozenset(('none' if v == 'any' and is_none else v) for v in out if v == 'any' or (v == 'none') == is_none)
            new = IN[s] | flow
            if new != IN[s]:
                IN[s] = new
                work.append(s)
    return set(IN[EXIT]), precise


def _returned_as_it_is(func_node, call: ast.Call) -> bool:
    """the result of ``call`` is (part of) what the function returns, reached through copies, `+`, list()/sorted()/..., unpacking into a list
    and extend / += on a returned name only - nothing selects among its elements"""
    seen: set[int] = set()
    todo = [r.value for r in walk_no_nested(func_node) if isinstance(r, ast.Return) and r.value is not None]
    while todo:
        e = todo.pop()
        if id(e) in seen:
            continue
        seen.add(id(e))
        if e is call:
            return True
        if isinstance(e, ast.Name):
            for st in walk_no_nested(func_node):
                if isinstance(st, (ast.Assign, ast.AnnAssign)) and st.value is not None and any(isinstance(t, ast.Name) and t.id == e.id for t in (st.targets if isinstance(st, ast.Assign) else [st.target])):
                    todo.append(st.value)
                elif isinstance(st, ast.AugAssign) and isinstance(st.op, ast.Add) and isinstance(st.target, ast.Name) and st.target.id == e.id:
                    todo.append(st.value)
                elif isinstance(st, ast.Call) and isinstance(st.func, ast.Attribute) and st.func.attr == 'extend' and isinstance(st.func.value, ast.Name) and st.func.value.id == e.id and st.args:
                    todo.append(st.args[0])
        elif isinstance(e, ast.BinOp) and isinstance(e.op, ast.Add):
            todo += [e.left, e.right]
        elif isinstance(e, ast.Call) and call_name(e) in ('list', 'sorted', 'tuple') and e.args and not e.keywords:
            todo.append(e.args[0])
        elif isinstance(e, (ast.List, ast.Tuple)):
            todo += [x.value for x in e.elts if isinstance(x, ast.Starred)]
    return False


def _holds_for_a_value(test: ast.expr, ev: str) -> str | None:
    """the test (or one of its alternatives) is true for some value other than None that a parameter file can hold: which and why"""
    if isinstance(test, ast.BoolOp) and isinstance(test.op, ast.Or):
        return next((r for r in (_holds_for_a_value(v, ev) for v in test.values) if r), None)
    if isinstance(test, ast.UnaryOp) and isinstance(test.op, ast.Not):
        o = test.operand
        if unparse(o) in (ev, f'bool({ev})'):
            return f'`{unparse(test)}` holds for 0, 0.0, False and the empty string'
        if isinstance(o, ast.UnaryOp) and isinstance(o.op, ast.Not):
            return _holds_for_a_value(o.operand, ev)
        return None
    if isinstance(test, ast.Compare) and len(test.ops) == 1:
        l_, r_ = test.left, test.comparators[0]
        if isinstance(test.ops[0], ast.Eq):
            for a, b_ in ((l_, r_), (r_, l_)):
                if unparse(a) == ev and isinstance(b_, ast.Constant) and b_.value is not None:
                    return f'`{unparse(test)}` holds for the value {b_.value!r}'
                if unparse(a) == f'len({ev})' and isinstance(b_, ast.Constant):
                    return f'`{unparse(test)}` holds for a text of that length'
        if isinstance(test.ops[0], ast.In) and unparse(l_) == ev and isinstance(r_, (ast.Tuple, ast.List, ast.Set)):
            vals = [e.value for e in r_.elts if isinstance(e, ast.Constant) and e.value is not None]
            if vals:
                return f'`{unparse(test)}` holds for the value {vals[0]!r}'
    return None


#: calls that ask the file system about one path / that move the directory relative names refer to
_PROBES = {'is_file', 'exists', 'isfile', 'lexists', 'stat', 'lstat', 'access', 'open', 'chdir', 'is_dir', 'isdir', 'resolve', 'samefile', 'touch'}


def _free_by_foreign_listing(g: FuncInfo) -> tuple[int, str] | None:
    """get_new_file_name decides that a candidate is free with `candidate in S` (the only test of its only loop), S being built once,
    before the loop, from ONE listing of a directory (os.listdir / os.scandir / Path.iterdir / glob) whose argument does not depend on
    the name asked for, while the candidate does; nothing in the function asks the file system about the candidate itself.
    A name with a directory part is then never found among the entries, whatever the files that exist: (line, what is wrong).
    None: any other shape (nothing is claimed)."""
    node = g.node
    params = g.positional_params()
    if not params:
        return None
    calls = [c for c in walk_no_nested(node) if isinstance(c, ast.Call)]
    if any((c.func.attr if isinstance(c.func, ast.Attribute) else call_name(c)) in _PROBES for c in calls):
        return None
    if any(isinstance(x, (ast.FunctionDef, ast.AsyncFunctionDef, ast.Lambda, ast.Try, ast.With, ast.Global, ast.Nonlocal)) for st in node.body for x in ast.walk(st)):
        return None
    loops = [x for x in walk_no_nested(node) if isinstance(x, (ast.While, ast.For))]
    if len(loops) != 1 or not isinstance(loops[0], ast.While) or loops[0] not in node.body or loops[0].orelse:
        return None
    loop = loops[0]
    t = loop.test
    if not (isinstance(t, ast.Compare) and len(t.ops) == 1 and isinstance(t.ops[0], ast.In) and isinstance(t.left, ast.Name) and isinstance(t.comparators[0], ast.Name)):
        return None
    cand, coll = t.left.id, t.comparators[0].id
    if any(isinstance(x, (ast.Break, ast.Return, ast.Raise)) for st in loop.body for x in ast.walk(st)):
        return None
    # what depends on the arguments - the name asked for, the extension (copies and texts assembled from them, to a fixed point)
    assigns = [a for a in walk_no_nested(node) if isinstance(a, (ast.Assign, ast.AnnAssign, ast.AugAssign, ast.NamedExpr))]
    tainted = set(g.params()) - {'self', 'cls'}
    changed = True
    while changed:
        changed = False
        for a in assigns:
            if a.value is None:
                continue
            tg = a.targets if isinstance(a, ast.Assign) else [a.target]
            if any(isinstance(x, ast.Name) and x.id in tainted for x in ast.walk(a.value)):
                for x in (y for t_ in tg for y in ast.walk(t_) if isinstance(y, ast.Name)):
                    if x.id not in tainted:
                        tainted.add(x.id)
                        changed = True
    # the collection: one assignment, a statement of the body before the loop; nothing else touches it (no method call on it, no other use than the test)
    defs = [a for a in assigns if any(isinstance(x, ast.Name) and x.id == coll for t_ in (a.targets if isinstance(a, ast.Assign) else [a.target]) for x in ast.walk(t_))]
    if len(defs) != 1 or not isinstance(defs[0], ast.Assign) or defs[0] not in node.body or seq(defs[0]) > seq(loop) or len(defs[0].targets) != 1 or not isinstance(defs[0].targets[0], ast.Name):
        return None
    uses = [x for x in walk_no_nested(node) if isinstance(x, ast.Name) and x.id == coll and isinstance(x.ctx, ast.Load)]
    if len(uses) != 1 or coll in tainted:
        return None
    # every definition of the candidate depends on the name, and it is what the function returns
    cdefs = [a for a in assigns if any(isinstance(x, ast.Name) and x.id == cand for t_ in (a.targets if isinstance(a, ast.Assign) else [a.target]) for x in ast.walk(t_))]
    if not cdefs or cand not in tainted or not all(isinstance(a, ast.Assign) and any(isinstance(x, ast.Name) and x.id in tainted for x in ast.walk(a.value)) for a in cdefs):
        return None
    rets = [r for r in walk_no_nested(node) if isinstance(r, ast.Return)]
    if len(rets) != 1 or not isinstance(rets[0].value, ast.Name) or rets[0].value.id != cand or rets[0] is not node.body[-1]:
        return None
    # the value of the collection: exactly one listing call in it, and no name that depends on the name asked for
    val = defs[0].value
    if any(isinstance(x, ast.Name) and x.id in tainted for x in ast.walk(val)):
        return None
    listings = []
    for c in (x for x in ast.walk(val) if isinstance(x, ast.Call)):
        nm = dotted(c.func) or ''
        attr = c.func.attr if isinstance(c.func, ast.Attribute) else None
        if nm in ('os.listdir', 'os.scandir', 'listdir', 'scandir', 'glob.glob', 'glob.iglob') or attr in ('iterdir', 'glob', 'rglob'):
            listings.append(c)
    if len(listings) != 1:
        return None
    where = unparse(listings[0])
    return loop.lineno, (f'`while {unparse(t)}`: a candidate is declared free when its text is not among the entries of `{where}` (collected once into {coll}, line {defs[0].lineno}), '
                         f'a listing that does not depend on `{params[0]}`; the file system is never asked about the candidate itself. A name with a directory part '
                         f"(model name 'out/m') is never among these entries, so {params[0]}.{params[1] if len(params) > 1 else 'ext'} is returned although that file exists - an existing file can be replaced")


def _origins(cfg, expr: ast.expr, at: int, depth: int = 6) -> list[tuple[str, str]]:
    """Where the value of a file-name expression comes from at cfg node ``at``: list of (tag, text) over the definitions that reach it
    'fresh'       the result of get_new_file_name(...)
    'remembered'  an attribute of self that some path from the entry of the function reaches without assigning it (state of an earlier call)
    'fixed'       a text assembled from constants, parameters and attributes - nothing in it was obtained from get_new_file_name
    'unknown'     anything else (a parameter, the result of another call, a loop variable, ...)"""
    from ..cfg import ENTRY

    if isinstance(expr, ast.Call):
        return [('fresh' if call_name(expr) == 'get_new_file_name' else 'unknown', unparse(expr))]
    name = dotted(expr) if isinstance(expr, (ast.Name, ast.Attribute)) else None
    if name is not None:
        if depth == 0:
            return [('unknown', name)]
        ds = cfg.reaching(at, name)
        out: list[tuple[str, str]] = []
        if name.startswith('self.') and cfg.path_avoiding(ENTRY, at, {d.node for d in ds} - {at}):
            out.append(('remembered', name))
        for d in ds:
            if d.kind == 'assign' and d.value is not None:
                out += _origins(cfg, d.value, d.node, depth - 1)
            else:
                out.append(('unknown', name))
        return out or [('unknown', name)]
    if isinstance(expr, ast.Constant) and isinstance(expr.value, str):
        return [('fixed', unparse(expr))]
    if isinstance(expr, (ast.JoinedStr, ast.BinOp)):
        if any(isinstance(x, (ast.Call, ast.Subscript, ast.Lambda, ast.IfExp)) for x in ast.walk(expr)):
            return [('unknown', unparse(expr))]
        leaves: list[ast.expr] = []

        def collect(e):
            if isinstance(e, (ast.Name, ast.Attribute)) and dotted(e):
                leaves.append(e)
                return
            for ch in ast.iter_child_nodes(e):
                collect(ch)
        collect(expr)
        sub = {t for lf in leaves for t, _ in _origins(cfg, lf, at, depth - 1)}
        # a parameter or an attribute of self inside the text is a fixed part; a part that may be a fresh name (or is not understood) is not
        if sub & {'fresh'} or any(t == 'unknown' and not _is_param_or_attr(cfg, lf, at) for lf in leaves for t, _ in _origins(cfg, lf, at, depth - 1)):
            return [('unknown', unparse(expr))]
        return [('fixed', unparse(expr))]
    return [('unknown', unparse(expr))]


def _is_new(f: FuncInfo) -> bool:
    """the function (or a function that encloses it) is not in the inventory of the reference tree"""
    from ..normal import inventory

    inv = inventory()
    if inv is None:
        return False
    return f'{f.file}::{f.qualname}'.replace('.<locals>', '') not in inv and f'{f.file}::{f.qualname}' not in inv


def _origins_through_callers(prog, f: FuncInfo, namee: ast.expr, depth: int = 3) -> set[str] | None:
    """tags (see _origins) of the attribute of self ``namee`` at every call of the new function ``f`` on the same object: a local closure is
    called by its name in the enclosing function, a method as self.f(...) by the methods of the classes that resolve the name to it.
    None: no caller, or some use of ``f`` that is not such a call."""
    sites: list[tuple[FuncInfo, ast.Call]] = []
    if f.parent is not None:
        if 'self' in f.params():
            return None
        for n in walk_no_nested(f.parent.node):
            if isinstance(n, ast.Call) and isinstance(n.func, ast.Name) and n.func.id == f.name:
                sites.append((f.parent, n))
        used = [n for n in ast.walk(f.parent.node) if isinstance(n, ast.Name) and n.id == f.name and isinstance(n.ctx, ast.Load)]
        if len(used) != len(sites) or sum(1 for n in ast.walk(f.parent.node) if isinstance(n, (ast.FunctionDef, ast.AsyncFunctionDef)) and n.name == f.name) != 1:
            return None
    elif f.cls is not None:
        if f.node.decorator_list:
            return None
        for g in prog.all_functions(with_transparent=True):
            owner = g
            while owner.cls is None and owner.parent is not None:
                owner = owner.parent
            if owner.cls is None:
                if any(isinstance(n, ast.Attribute) and n.attr == f.name for n in ast.walk(g.node)):
                    return None
                continue
            for n in walk_no_nested(g.node):
                if isinstance(n, ast.Attribute) and n.attr == f.name:
                    if not (isinstance(n.value, ast.Name) and n.value.id == 'self' and g is owner):
                        return None  # called on another object, through super(), from a closure, or handed on uncalled
                    if f.cls in owner.cls.mro() or owner.cls in f.cls.mro():
                        if owner.cls.resolve(f.name) is not f and f.cls not in owner.cls.mro():
                            continue
                        sites.append((g, n))
        calls = {id(c.func): c for g, _ in sites for c in walk_no_nested(g.node) if isinstance(c, ast.Call)}
        if any(id(a) not in calls for _, a in sites):
            return None
        sites = [(g, calls[id(a)]) for g, a in sites]
    else:
        return None
    if not sites:
        return None
    tags: set[str] = set()
    for g, c in sites:
        cfg = cfg_of(g.node)
        at = cfg.node_of(c)
        if at is None:
            return None
        for t, e in _origins(cfg, namee, at):
            if t == 'remembered' and _may_be_set_by_callee(g, cfg, e, at):
                t = 'unknown'
            if t == 'remembered' and _is_new(g) and depth > 0 and g is not f:
                sub = _origins_through_callers(prog, g, namee, depth - 1)
                if sub is None:
                    return None
                tags |= sub
                continue
            tags.add(t)
    return tags


def _may_be_set_by_callee(f: FuncInfo, cfg, attr: str, at: int, depth: int = 3) -> bool:
    """some call executed before cfg node ``at`` may assign the attribute ``attr`` of self: a method of the same object that stores it
    (followed through the methods it calls), or a call that is handed the object / the record that carries the attribute and cannot be looked into"""
    holders = {attr.rsplit('.', k)[0] for k in range(1, attr.count('.') + 1)}  # self, self.data, ...

    def stores(func: FuncInfo, d: int) -> bool:
        for n in walk_no_nested(func.node):
            if isinstance(n, ast.Attribute) and isinstance(n.ctx, ast.Store) and dotted(n) == attr:
                return True
            if isinstance(n, ast.Call) and look(func, n, d):
                return True
        return False

    def look(func: FuncInfo, call: ast.Call, d: int) -> bool:
        if call_name(call) == 'get_new_file_name':
            return False
        if isinstance(call.func, ast.Attribute) and dotted(call.func.value) == 'self':
            callee = func.cls.resolve(call.func.attr) if func.cls is not None else None
            if callee is None or d == 0:
                return True
            return stores(callee, d - 1)
        return any(dotted(a) in holders for a in list(call.args) + [k.value for k in call.keywords])

    for n in walk_no_nested(f.node):
        if isinstance(n, ast.Call):
            cn = cfg.node_of(n)
            if cn is not None and cn != at and cfg.reaches(cn, at) and look(f, n, depth):
                return True
    return False


def _is_param_or_attr(cfg, leaf: ast.expr, at: int) -> bool:
    name = dotted(leaf)
    ds = cfg.reaching(at, name)
    return (not ds and '.' in name) or (bool(ds) and all(d.kind == 'param' for d in ds))


def const_tuple(node) -> tuple:
    try:
        return tuple(const_value(e) for e in node.elts)
    except Exception:
        raise AnalysisError('C14: TRUE_STR / FALSE_STR are not literal tuples')


_R = 'src/biogeme/results.py'
_P = 'src/biogeme/parameters.py'
MUTANTS = [
    dict(name='write_latex opens modelName.tex directly', rule='C14.R1', file=_R,
         old="        self.data.latexFileName = bf.get_new_file_name(self.data.modelName, 'tex')", new="        self.data.latexFileName = f'{self.data.modelName}.tex'"),
    dict(name='write_html reuses a remembered name (seed C14/1)', rule='C14.R1', file=_R,
         old="        self.data.htmlFileName = bf.get_new_file_name(self.data.modelName, 'html')", new="        if self.data.htmlFileName is None:\n            self.data.htmlFileName = bf.get_new_file_name(self.data.modelName, 'html')"),
    dict(name='pre-fix: flat panel csv overwritten', rule='C14.R1', file='src/biogeme/database.py',
         old="            file_name = bf.get_new_file_name(f'{self.name}_flatten', 'csv')", new="            file_name = f'{self.name}_flatten.csv'"),
    dict(name='new writer without fresh name', rule='C14.R1', file='src/biogeme/database.py',
         old='    def is_panel(self) -> bool:', new="    def save(self) -> None:\n        self.data.to_csv(f'{self.name}.csv')\n\n    def is_panel(self) -> bool:"),
    dict(name='get_new_file_name checks once', rule='C14.R1', file='src/biogeme/filenames.py', old='    while the_file.is_file():', new='    if the_file.is_file():'),
    dict(name='get_new_file_name looks candidates up in a listing of the current directory (round 9 C14/9)', rule='C14.R1', file='src/biogeme/filenames.py',
         old="    the_file = Path(file_name)\n    number = int(0)\n    while the_file.is_file():\n        file_name = f'{name}~{number:02d}.{ext}'\n        the_file = Path(file_name)\n",
         new="    existing = {p.name for p in Path('.').iterdir()}\n    number = int(0)\n    while file_name in existing:\n        file_name = f'{name}~{number:02d}.{ext}'\n"),
    dict(name='parameter table skips fixed-looking parameters', rule='C14.R2', file=_R,
         old='        for b in self.data.betas:\n            if any_active_bound:\n                if only_robust:\n                    arow = {', new='        for b in self.data.betas:\n            if b.robust_stdErr == 0:\n                continue\n            if any_active_bound:\n                if only_robust:\n                    arow = {'),
    dict(name='statistics not recomputed when loading a pickle', rule='C14.R3', file=_R,
         old='                error_msg = f\'File {pickle_file} not found\'\n                raise excep.FileNotFound(error_msg) from e\n', new='                error_msg = f\'File {pickle_file} not found\'\n                raise excep.FileNotFound(error_msg) from e\n            return\n'),
    dict(name='write_pickle dumps the results object', rule='C14.R3', file=_R, old='            pickle.dump(self.data, f)', new='            pickle.dump(self, f)'),
    dict(name="booleans written as '1'/'0'", rule='C14.R4', file=_P, old="                value = 'True' if parameter.value else 'False'", new="                value = '1' if parameter.value else '0'"),
    dict(name='falsy values fall back to the default (seed C14/2)', rule='C14.R4', file=_P, old='                if entry_value is None:', new='                if not entry_value:'),
    dict(name='boolean default declared as int', rule='C14.R4', file='src/biogeme/default_parameters.py',
         old="            name='generate_html',\n            value=True,\n            type=bool,", new="            name='generate_html',\n            value=True,\n            type=int,"),
]
NEUTRAL = [
    dict(name='write_html builds the name via a local', file=_R,
         old="        self.data.htmlFileName = bf.get_new_file_name(self.data.modelName, 'html')\n        with open(self.data.htmlFileName, 'w', encoding='utf-8') as f:",
         new="        self.data.htmlFileName = bf.get_new_file_name(self.data.modelName, 'html')\n        with open(self.data.htmlFileName, mode='w', encoding='utf-8') as f:"),
]
