"""C14 - what is written reads back unchanged and never overwrites earlier output (structural clauses)."""

from __future__ import annotations

import ast
import re

from ..cfg import cfg_of
from ..core import seq, AnalysisError, FuncInfo, call_name, const_value, dotted, unparse, walk_no_nested
from ..pattern import body_is, find, find_expr, has, has_expr
from ..report import Ctx

#: write sites that do not take a fresh name from get_new_file_name: reason
EXEMPT = {
    'BIOGEME.calculate_likelihood_and_derivatives': 'the iteration file: a unique temporary file is written and atomically renamed (C15)',
    'Parameters.dump_file': 'the parameter file: written when it does not exist (read_file) or on explicit request',
    'ChoiceSetsGeneration.sample_and_merge': 'the file name is chosen by the caller (constructor argument)',
    'TemporaryFile.__enter__': 'a fresh temporary directory',
}


def write_sites(prog):
    """(function, call node, expression naming the file)"""
    out = []
    for f in prog.all_functions():
        for c in walk_no_nested(f.node):
            if not isinstance(c, ast.Call):
                continue
            name = dotted(c.func) or ''
            if name in ('open', 'os.fdopen', 'io.open') and c.args:
                mode = c.args[1] if len(c.args) > 1 else next((k.value for k in c.keywords if k.arg == 'mode'), None)
                m = None
                try:
                    m = const_value(mode) if mode is not None else 'r'
                except ValueError:
                    m = '?'
                if isinstance(m, str) and any(x in m for x in 'wax+?'):
                    out.append((f, c, c.args[0]))
            elif isinstance(c.func, ast.Attribute) and c.func.attr in ('to_csv', 'to_pickle', 'to_excel', 'to_json', 'to_html', 'to_stata', 'to_parquet', 'to_feather') and c.args:
                out.append((f, c, c.args[0]))
            elif name in ('np.save', 'np.savetxt', 'numpy.save', 'shutil.copy', 'shutil.copyfile', 'os.rename') and c.args:
                pass
    return out


#: obligations whose failure contradicts the property (rule, construct pattern, why); every other failure is 'not recognised'
POSITIVE: list[tuple[str, str, str]] = [
    ('C14.R4', r'^default\[', 'declared type, default value and boolean check of a parameter disagree'),
    ('C14.R3', r'^bioResults\.__init__$', 'must-pass: a results object can be constructed without recomputing its statistics'),
]


def run(ctx: Ctx) -> None:
    ctx.positive_table = list(POSITIVE)
    prog = ctx.prog
    ctx.rule('C14.R1', 'who may write: every write-open (open(..., w/a/x), os.fdopen, DataFrame.to_csv/...) in the package takes its file name from an assignment '
             'name = get_new_file_name(...) that dominates the write in the same function (a remembered name is never reused); frozen exemptions: iteration file, '
             'parameter file, caller-named sampling file, TemporaryFile; get_new_file_name loops while the candidate exists')
    ctx.rule('C14.R2', 'reports list every parameter: the parameter table has one row per estimated parameter and HTML, LaTeX, F12 and the printed form iterate all of it')
    ctx.rule('C14.R3', 're-derivation on load: every normal exit of bioResults.__init__ passes through _calculate_stats; write_pickle dumps exactly self.data')
    ctx.rule('C14.R5', 'writer <-> reader of file names: the patterns with which a model looks for its own files (files_of_type, used by recycle) are the name templates of get_new_file_name '
             '(name.ext, name~NN.ext); a wildcard directly after the model name also matches the files of other models')
    ctx.rule('C14.R4', 'boolean coding and parameter round trip: booleans are written as members of TRUE_STR/FALSE_STR and parsed back iff the declared type is bool; '
             'every other value read from the file is used as it is (only a missing value falls back to the default); for all defaults type and value agree')
    ctx.not_decided += ['equality of re-read values (pickle / TOML library semantics)']
    n = 0
    for f, c, namee in write_sites(prog):
        owner = f.qualname
        n += 1
        if owner in EXEMPT:
            ctx.add('C14.R1', f'{owner}:write', True, (f.file, c.lineno), f'exempt: {EXEMPT[owner]}', 'exempt')
            continue
        cfg = cfg_of(f.node)
        target = unparse(namee)
        defs = [a for a in walk_no_nested(f.node) if isinstance(a, ast.Assign) and any(unparse(t) == target for t in a.targets)]
        fresh = [a for a in defs if isinstance(a.value, ast.Call) and call_name(a.value) == 'get_new_file_name']
        here = cfg.node_of(c)
        ok = len(defs) >= 1 and len(fresh) == len(defs) and any(cfg.dominates(cfg.node_of(a), here) for a in fresh)
        if isinstance(namee, ast.Call) and call_name(namee) == 'get_new_file_name':
            ok = True
        why = None
        if not ok:
            stale = [a for a in defs if a not in fresh]
            if not defs and target.startswith('self.'):
                why = f'{target} is not assigned in {f.name}: the file is opened for writing under a name remembered from an earlier call'
            elif fresh and not stale and not any(cfg.dominates(cfg.node_of(a), here) for a in fresh):
                why = f'the call of get_new_file_name that defines {target} is not executed on every path to the write: on the others the remembered name is used'
            elif stale and all(isinstance(a.value, (ast.JoinedStr, ast.Constant, ast.BinOp, ast.Attribute)) for a in stale):
                why = f'{target} = {unparse(stale[0].value)[:60]} is a name built from fixed parts, not a name that get_new_file_name found free'
        ctx.add('C14.R1', f'{owner}:write({target[:40]})', ok if (ok or why) else None, (f.file, c.lineno),
                f'{unparse(c.func)}({target}) with {target} freshly obtained from get_new_file_name' if ok
                else (f'{unparse(c.func)}({target}): {why} - an existing file can be replaced' if why else f'{unparse(c.func)}({target}): where the name comes from is not in a form the rule understands'), target, positive=bool(why))
    ctx.floor('C14.R1', 9)
    g = prog.func('filenames', 'get_new_file_name')
    ok = any(body_is(g.body, f"""
_FN = name + '.' + ext
_F = Path(_FN)
_N = __ZERO
while {test}:
    _FN = __CANDIDATE
    _F = Path(_FN)
    _N += 1
return _FN
""") is not None for test in ('_F.is_file()', '_F.exists()', 'os.path.exists(_FN)', 'os.path.isfile(_FN)'))
    if ok:
        loop = next(x for x in walk_no_nested(g.node) if isinstance(x, ast.While))
        cand = loop.body[0].value
        counter = unparse(next(x for x in loop.body if isinstance(x, ast.AugAssign)).target)
        names = {x.id for x in ast.walk(cand) if isinstance(x, ast.Name)}
        ok = {'name', 'ext', counter} <= names
    ctx.add('C14.R1', 'get_new_file_name', ok, g, 'a candidate name is returned only when no file of that name exists; candidates are numbered' if ok else 'get_new_file_name no longer loops until the name is free', 'loop')

    BR = prog.cls('results', 'bioResults')
    gp = BR.methods['get_estimated_parameters']
    b = find(gp.node, """
_T = pd.DataFrame(columns=__COLS)
for _B in self.data.betas:
    ___
    _T.loc[_B.name] = pd.Series(__ROW)
return _T
""")
    ok = b is not None
    if ok:
        loops = [x for x in walk_no_nested(gp.node) if isinstance(x, ast.For) and unparse(x.iter) == 'self.data.betas' and unparse(x.target) == b['_B'] and any(unparse(st).startswith(b['_T'] + '.loc[') for st in x.body)]
        ok = len(loops) == 1 and not any(isinstance(x, (ast.Continue, ast.Break, ast.Return)) for x in ast.walk(loops[0]))
        store = [x for x in ast.walk(loops[0]) if isinstance(x, ast.Assign) and unparse(x.targets[0]).startswith(b['_T'] + '.loc[')] if ok else []
        ok = ok and len(store) == 1 and store[0] in loops[0].body
    ctx.add('C14.R2', 'get_estimated_parameters', ok, gp, 'one row per element of data.betas, unconditionally' if ok else 'rows of the parameter table are filtered or keyed differently', 'rows')
    h = BR.methods['get_html']
    ok = has(h.node, """
_T = self.get_estimated_parameters(only_robust)
___
for _N, _V in _T.iterrows():
    ___
""")
    ctx.add('C14.R2', 'get_html', ok, h, 'the HTML report iterates all rows of the parameter table' if ok else 'get_html no longer iterates the parameter table', 'html')
    l = BR.methods['get_latex']
    b = find(l.node, "_T = self.get_estimated_parameters(only_robust)")
    ok = b is not None and (has_expr(l.node, f'{b["_T"]}.style.format(__F).to_latex()') or has_expr(l.node, f'{b["_T"]}.to_latex(float_format=__F)') or has_expr(l.node, f'{b["_T"]}.to_latex()'))
    ctx.add('C14.R2', 'get_latex', ok, l, 'the LaTeX report renders the whole parameter table' if ok else 'get_latex no longer renders the parameter table', 'latex')
    f12 = BR.methods['get_f12']
    ok = has(f12.node, """
_T = self.get_estimated_parameters(False)
_NAMES = _T.index.to_list()
for _N in _NAMES:
    _V = _T.loc[_N]
    ___
""")
    ctx.add('C14.R2', 'get_f12', ok, f12, 'the F12 report iterates all rows of the parameter table' if ok else 'get_f12 no longer iterates all parameters', 'f12')
    s = BR.methods['__str__']
    ok = has_expr(s.node, "'\\n'.join([f'{_B}' for _B in self.data.betas])") or has_expr(s.node, "'\\n'.join((f'{_B}' for _B in self.data.betas))")
    ctx.add('C14.R2', 'bioResults.__str__', ok, s, 'the printed form joins all parameters' if ok else '__str__ no longer lists all parameters', 'str')

    init = BR.methods['__init__']
    cfg = cfg_of(init.node)
    calls = [x for x in walk_no_nested(init.node) if isinstance(x, ast.Call) and unparse(x.func) == 'self._calculate_stats']
    ok = len(calls) == 1 and cfg.must_pass(0, {cfg.node_of(calls[0])})
    ctx.add('C14.R3', 'bioResults.__init__', ok, init, 'statistics are recomputed on every construction, also from a pickle file' if ok else 'a results object can be constructed without recomputing its statistics', 'stats')
    wp = BR.methods['write_pickle']
    dumps = [x for x in walk_no_nested(wp.node) if isinstance(x, ast.Call) and dotted(x.func) == 'pickle.dump']
    ok = len(dumps) == 1 and unparse(dumps[0].args[0]) == 'self.data'
    ctx.add('C14.R3', 'bioResults.write_pickle', ok, wp, 'the pickle holds exactly the raw results' if ok else f'pickle.dump receives {unparse(dumps[0].args[0]) if dumps else "?"}', 'dump')
    loads = [x for x in walk_no_nested(init.node) if isinstance(x, ast.Assign) and unparse(x.targets[0]) == 'self.data' and isinstance(x.value, ast.Call) and dotted(x.value.func) == 'pickle.load']
    ok = len(loads) >= 1
    ctx.add('C14.R3', 'bioResults.__init__:load', ok, init, 'the pickle is loaded into self.data' if ok else 'pickle no longer loaded into self.data', 'load')

    # the files a model finds again (recycle) are the files it writes: name.ext and name~NN.ext, nothing else
    def shape_of(e, names):
        """a name template as text: the parts that stand for the model name / the extension / a number -> N / E / *"""
        from ..normal import fold_string

        if isinstance(e, ast.BinOp) and isinstance(e.op, ast.Add):
            l_, r_ = shape_of(e.left, names), shape_of(e.right, names)
            return None if l_ is None or r_ is None else l_ + r_
        if isinstance(e, ast.Constant) and isinstance(e.value, str):
            return e.value
        if isinstance(e, ast.JoinedStr):
            out = ''
            for v in e.values:
                t = shape_of(v.value if isinstance(v, ast.FormattedValue) else v, names)
                if t is None:
                    return None
                out += t
            return out
        return names.get(unparse(e))

    gn = prog.func('filenames', 'get_new_file_name')
    fo = prog.cls('biogeme', 'BIOGEME').methods['files_of_type']
    from ..core import inline_locals

    pn, pe = gn.positional_params()[:2]
    counters = {unparse(x.target) for x in walk_no_nested(gn.node) if isinstance(x, ast.AugAssign)}
    wnames = {pn: 'N', pe: 'E', **{c_: '*' for c_ in counters}}
    written = {shape_of(a.value, wnames) for a in walk_no_nested(gn.node) if isinstance(a, ast.Assign) and isinstance(a.value, (ast.JoinedStr, ast.BinOp))}
    ext_p = fo.positional_params()[1]
    globs = [c for c in walk_no_nested(fo.node) if isinstance(c, ast.Call) and dotted(c.func) == 'glob.glob' and c.args]
    def arg_of(c):
        a = c.args[0]
        if isinstance(a, ast.Name):
            # the assignment that reaches the call: the nearest one before it (each branch of files_of_type defines its own)
            defs = [d for d in walk_no_nested(fo.node) if isinstance(d, ast.Assign) and unparse(d.targets[0]) == a.id and seq(d) < seq(c)]
            if defs:
                return max(defs, key=seq).value
        return inline_locals(fo.node, a)

    found = {shape_of(arg_of(c), {'self.modelName': 'N', ext_p: 'E'}) for c in globs}
    found.discard('*.E')  # (the all_files branch)
    if None in written or None in found or not written or not found:
        ctx.add('C14.R5', 'files_of_type:patterns', None, fo, f'name templates not in the expected form: written {sorted(map(str, written))}, searched {sorted(map(str, found))}', 'patterns')
    else:
        greedy = sorted(t for t in found if t.startswith('N*'))
        if greedy:
            ctx.add('C14.R5', 'files_of_type:patterns', False, fo, f'files are searched with the pattern {greedy[0]} (N = model name, E = extension): it also matches the files of every other model whose name begins with this '
                    f'model\'s name; recycle then loads the results of another model. The files of a model are {sorted(written)}', str(sorted(found)), positive=True)
        else:
            ok = found == written
            ctx.add('C14.R5', 'files_of_type:patterns', ok if ok else None, fo, f'the files searched for a model are the files written for it: {sorted(found)}' if ok else
                    f'the patterns searched {sorted(found)} are not in the expected form (the names written are {sorted(written)})', str(sorted(found)))

    pm = prog.module('parameters')
    T = pm.assigns.get('TRUE_STR')
    F = pm.assigns.get('FALSE_STR')
    ctx.need(T is not None and F is not None, 'TRUE_STR / FALSE_STR')
    tvals, fvals = const_tuple(T), const_tuple(F)
    P = prog.cls('parameters', 'Parameters')
    gd = P.methods['generate_document']
    b = find(gd.node, """
for _P in self.all_parameters_dict.values():
    if isinstance(_P.value, bool):
        _V = __T if _P.value else __F
    else:
        _V = _P.value
    _TABLES[_P.section].add(_P.name, _V)
    ___
""")
    ok = False
    m = None
    if b is not None:
        try:
            tv, fv = const_value(b['__T'][1]), const_value(b['__F'][1])
            ok = tv in tvals and fv in fvals

            class _M:
                def group(self, i):
                    return (tv, fv)[i - 1]

            m = _M()
        except ValueError:
            ok = False
    ctx.add('C14.R4', 'Parameters.generate_document', ok, gd, f"booleans are written as '{m.group(1)}'/'{m.group(2)}', members of TRUE_STR/FALSE_STR; other values unchanged" if ok else 'coding of booleans in the parameter file changed', 'gen')
    pb = prog.func('parameters', 'parse_boolean')
    ok = body_is(pb.body, '''
if value in TRUE_STR:
    return True
if value in FALSE_STR:
    return False
___
raise BiogemeError(__MSG)
''') is not None
    ctx.add('C14.R4', 'parse_boolean', ok, pb, 'TRUE_STR -> True, FALSE_STR -> False' if ok else 'parse_boolean changed', 'parse')
    im = P.methods['import_document']
    b = find(im.node, """
for _SN, _ENTRIES in self.document.items():
    for _EN, _EV in _ENTRIES.items():
        ___
        _DEF = self.all_parameters_dict.get(__KEY)
        if _DEF is None:
            ___
            continue
        if __MISSING:
            _VAL = _DEF.value
        elif _DEF.type is bool:
            try:
                _VAL = parse_boolean(_EV)
            except __EXC as _ERR:
                ___
        else:
            _VAL = _EV
        _PT = ParameterTuple(name=_EN, value=_VAL, type=_DEF.type, section=_SN, description=_DEF.description, check=_DEF.check)
        self.add_parameter(_PT)
""")
    ok = False
    det = 'the chain missing -> default / bool -> parse_boolean / else -> as read was restructured'
    if b is None:
        # the same chain entered through the complementary test (`if <value present>: ... else: default`)
        b2 = find(im.node, """
for _SN, _ENTRIES in self.document.items():
    for _EN, _EV in _ENTRIES.items():
        ___
        _DEF = self.all_parameters_dict.get(__KEY)
        if _DEF is None:
            ___
        else:
            if __PRESENT:
                if _DEF.type is bool:
                    try:
                        _VAL = parse_boolean(_EV)
                    except __EXC as _ERR:
                        ___
                else:
                    _VAL = _EV
            else:
                _VAL = _DEF.value
            ___
""")
        if b2 is not None:
            pres = unparse(b2['__PRESENT'][1]).replace(b2['_EV'], 'entry_value')
            if pres != 'entry_value is not None':
                b = b2
                b['__MISSING'] = (None, ast.parse(f'not ({pres})').body[0].value)
    if b is not None:
        det = unparse(b['__MISSING'][1]).replace(b['_EV'], 'entry_value')
        ok = det == 'entry_value is None'
    ctx.add('C14.R4', 'Parameters.import_document', ok if (ok or b is not None) else None, im, 'missing -> default; bool -> parse_boolean; anything else is kept as read' if ok else f'values read from the file are filtered by `{det}`: an admissible value (0, 0.0, empty string) may be replaced by the default', det, positive=b is not None)
    ap = prog.func('default_parameters', 'all_parameters_tuple')
    npar = 0
    for c in ast.walk(ap.node):
        if isinstance(c, ast.Call) and call_name(c) == 'ParameterTuple':
            kw = {k.arg: k.value for k in c.keywords}
            name = const_value(kw['name'])
            ty = unparse(kw['type'])
            try:
                v = const_value(kw['value'])
            except ValueError:
                continue
            npar += 1
            ok = {'bool': isinstance(v, bool), 'int': isinstance(v, int) and not isinstance(v, bool), 'float': isinstance(v, (int, float)) and not isinstance(v, bool), 'str': isinstance(v, str)}.get(ty, False)
            checks = unparse(kw['check'])
            okb = (ty == 'bool') == ('is_boolean' in checks)
            ctx.add('C14.R4', f'default[{name}]', ok and okb, (ap.file, c.lineno), f'{name}: declared {ty}, default {v!r}' + ('' if ok and okb else ' - type, value and boolean check disagree'), f'{ty}:{v!r}:{"is_boolean" in checks}')
    ctx.floor('C14.R4', 25)


def const_tuple(node) -> tuple:
    try:
        return tuple(const_value(e) for e in node.elts)
    except Exception:
        raise AnalysisError('C14: TRUE_STR / FALSE_STR are not literal tuples')


_R = 'src/biogeme/results.py'
_P = 'src/biogeme/parameters.py'
MUTANTS = [
    dict(name='write_latex opens modelName.tex directly', rule='C14.R1', file=_R,
         old="        self.data.latexFileName = bf.get_new_file_name(self.data.modelName, 'tex')", new="        self.data.latexFileName = f'{self.data.modelName}.tex'"),
    dict(name='write_html reuses a remembered name (seed C14/1)', rule='C14.R1', file=_R,
         old="        self.data.htmlFileName = bf.get_new_file_name(self.data.modelName, 'html')", new="        if self.data.htmlFileName is None:\n            self.data.htmlFileName = bf.get_new_file_name(self.data.modelName, 'html')"),
    dict(name='pre-fix: flat panel csv overwritten', rule='C14.R1', file='src/biogeme/database.py',
         old="            file_name = bf.get_new_file_name(f'{self.name}_flatten', 'csv')", new="            file_name = f'{self.name}_flatten.csv'"),
    dict(name='new writer without fresh name', rule='C14.R1', file='src/biogeme/database.py',
         old='    def is_panel(self) -> bool:', new="    def save(self) -> None:\n        self.data.to_csv(f'{self.name}.csv')\n\n    def is_panel(self) -> bool:"),
    dict(name='get_new_file_name checks once', rule='C14.R1', file='src/biogeme/filenames.py', old='    while the_file.is_file():', new='    if the_file.is_file():'),
    dict(name='parameter table skips fixed-looking parameters', rule='C14.R2', file=_R,
         old='        for b in self.data.betas:\n            if any_active_bound:\n                if only_robust:\n                    arow = {', new='        for b in self.data.betas:\n            if b.robust_stdErr == 0:\n                continue\n            if any_active_bound:\n                if only_robust:\n                    arow = {'),
    dict(name='statistics not recomputed when loading a pickle', rule='C14.R3', file=_R,
         old='                error_msg = f\'File {pickle_file} not found\'\n                raise excep.FileNotFound(error_msg) from e\n', new='                error_msg = f\'File {pickle_file} not found\'\n                raise excep.FileNotFound(error_msg) from e\n            return\n'),
    dict(name='write_pickle dumps the results object', rule='C14.R3', file=_R, old='            pickle.dump(self.data, f)', new='            pickle.dump(self, f)'),
    dict(name="booleans written as '1'/'0'", rule='C14.R4', file=_P, old="                value = 'True' if parameter.value else 'False'", new="                value = '1' if parameter.value else '0'"),
    dict(name='falsy values fall back to the default (seed C14/2)', rule='C14.R4', file=_P, old='                if entry_value is None:', new='                if not entry_value:'),
    dict(name='boolean default declared as int', rule='C14.R4', file='src/biogeme/default_parameters.py',
         old="            name='generate_html',\n            value=True,\n            type=bool,", new="            name='generate_html',\n            value=True,\n            type=int,"),
]
NEUTRAL = [
    dict(name='write_html builds the name via a local', file=_R,
         old="        self.data.htmlFileName = bf.get_new_file_name(self.data.modelName, 'html')\n        with open(self.data.htmlFileName, 'w', encoding='utf-8') as f:",
         new="        self.data.htmlFileName = bf.get_new_file_name(self.data.modelName, 'html')\n        with open(self.data.htmlFileName, mode='w', encoding='utf-8') as f:"),
]
