"""C07 - estimation returns a feasible maximum of the stated likelihood (structural clauses)."""

from __future__ import annotations

import ast
import re

from ..cfg import cfg_of
from ..core import inline_locals, named_args, seq, AnalysisError, call_name, const_value, unparse, walk_no_nested
from ..packs import ord_pack
from ..report import Ctx
from .c04 import restore_rule


#: obligations whose failure contradicts the property (rule, construct pattern, why); every other failure is 'not recognised'
POSITIVE: list[tuple[str, str, str]] = [
    ('C07.R2', r':same-point$', 'reaching definitions: the point handed to RawResults is defined again after the main optimisation'),
]


def _dict_items(d: ast.expr) -> dict[str, ast.expr] | None:
    """key -> value of a dictionary written out with constant text keys (`{'a': x}` or `dict(a=x)`); None for anything else"""
    if isinstance(d, ast.Call) and isinstance(d.func, ast.Name) and d.func.id == 'dict' and all(x.arg for x in d.keywords):
        out: dict[str, ast.expr] = {}
        if len(d.args) == 1:
            first = _dict_items(d.args[0])
            if first is None:
                return None
            out.update(first)
        elif d.args:
            return None
        out.update({x.arg: x.value for x in d.keywords})
        return out
    if isinstance(d, ast.Dict) and all(isinstance(x, ast.Constant) and isinstance(x.value, str) for x in d.keys):
        return {x.value: v for x, v in zip(d.keys, d.values)}
    return None


def _built_dict(fn: ast.FunctionDef, name: str, call: ast.Call) -> dict[str, ast.expr] | None:
    """what the local `name` holds where `call` stands, when it is a dictionary written out and then changed by statements the rule can replay:
    `name = {...}` followed, in the same straight run of statements (the body of the function), by `name.update(k=v)`, `name.update({...})`,
    `name['k'] = v`.  None when anything else touches the local before the call."""
    body = fn.body
    at = next((i for i, st in enumerate(body) if any(x is call for x in ast.walk(st))), None)
    if at is None:
        return None
    cur: dict[str, ast.expr] | None = None
    for st in body[:at]:
        mentions = [x for x in ast.walk(st) if isinstance(x, ast.Name) and x.id == name]
        if not mentions:
            continue
        if isinstance(st, (ast.Assign, ast.AnnAssign)) and st.value is not None:
            tg = st.targets[0] if isinstance(st, ast.Assign) and len(st.targets) == 1 else getattr(st, 'target', None)
            inner = [x for x in ast.walk(st.value) if isinstance(x, ast.Name) and x.id == name]
            if isinstance(tg, ast.Name) and tg.id == name and not inner:
                cur = _dict_items(inline_locals(fn, st.value))
                if cur is None:
                    return None
                continue
            if (cur is not None and isinstance(tg, ast.Subscript) and isinstance(tg.value, ast.Name) and tg.value.id == name and isinstance(tg.slice, ast.Constant)
                    and isinstance(tg.slice.value, str) and not inner):
                cur[tg.slice.value] = st.value
                continue
            return None
        if (cur is not None and isinstance(st, ast.Expr) and isinstance(st.value, ast.Call) and isinstance(st.value.func, ast.Attribute) and st.value.func.attr == 'update'
                and isinstance(st.value.func.value, ast.Name) and st.value.func.value.id == name and len(mentions) == 1):
            more = _dict_items(ast.Call(func=ast.Name(id='dict', ctx=ast.Load()), args=[inline_locals(fn, a_) for a_ in st.value.args], keywords=st.value.keywords))
            if more is None:
                return None
            cur.update(more)
            continue
        return None
    # (nothing in the statement of the call itself may change it before it is read: only the read is allowed there)
    if sum(1 for x in ast.walk(body[at]) if isinstance(x, ast.Name) and x.id == name) != 1:
        return None
    return cur


def _flags(fn: ast.FunctionDef, call: ast.Call) -> tuple[dict[str, str], bool]:
    """(parameter -> argument text, complete): the named arguments of a call, those given as `**d` included when d is (a local holding) a dictionary
    written out with constant keys, changed or not afterwards by `d.update(k=v)` / `d['k'] = v`.  complete is False when some `**` or `*` argument
    could not be read: a parameter that is not in the dictionary may then have been given all the same"""
    out = named_args(call)
    complete = not any(isinstance(a, ast.Starred) for a in call.args)
    for k in call.keywords:
        if k.arg is not None:
            continue
        d = _dict_items(inline_locals(fn, k.value))
        if d is None and isinstance(k.value, ast.Name):
            d = _built_dict(fn, k.value.id, call)
        if d is None:
            complete = False
            continue
        for x, v in d.items():
            out.setdefault(x, unparse(inline_locals(fn, v)))
    return out, complete


def _unbounded(fn: ast.FunctionDef, e: ast.expr) -> bool:
    """the expression (locals resolved) builds its pairs from the literal (None, None): no bound at all, whatever was declared"""
    r = inline_locals(fn, e)
    return any(isinstance(t, ast.Tuple) and len(t.elts) == 2 and all(isinstance(x, ast.Constant) and x.value is None for x in t.elts) for t in ast.walk(r))


def _both_sides_only(e: ast.expr) -> str | None:
    """e (locals resolved) is `<bounds> if K else None` (or the mirror image with `not K`) where K, the condition under which the bounds are kept, reads
    `there is a pair of bounds whose lower AND upper side are both given`: `any(l is not None and u is not None for l, u in bounds)`, the same with
    `b[0]` / `b[1]`, with one side as the filter of the generator, or the De Morgan image `not all(l is None or u is None for ...)`.
    Returns the text of K then; None for every other expression or test (also for the correct `or`), which the rule does not judge."""
    if not isinstance(e, ast.IfExp):
        return None

    def kept(x):
        return unparse(x) in ('bounds', 'Bounds(bounds)')

    def none(x):
        return isinstance(x, ast.Constant) and x.value is None

    if kept(e.body) and none(e.orelse):
        k, neg = e.test, False
    elif kept(e.orelse) and none(e.body):
        k, neg = e.test, True
    else:
        return None
    while isinstance(k, ast.UnaryOp) and isinstance(k.op, ast.Not):
        k, neg = k.operand, not neg
    if not (isinstance(k, ast.Call) and isinstance(k.func, ast.Name) and k.func.id in ('any', 'all') and len(k.args) == 1 and not k.keywords
            and isinstance(k.args[0], (ast.GeneratorExp, ast.ListComp, ast.SetComp)) and len(k.args[0].generators) == 1):  # (the normal form writes the generator as a list)
        return None
    gen = k.args[0].generators[0]
    if (k.func.id == 'any') == neg or unparse(gen.iter) != 'bounds' or gen.is_async:
        return None  # (after the negations the condition must read `there is a pair such that ...`)
    tg = gen.target

    def side(x):
        if isinstance(tg, ast.Tuple) and len(tg.elts) == 2 and all(isinstance(t, ast.Name) for t in tg.elts) and isinstance(x, ast.Name):
            return [t.id for t in tg.elts].index(x.id) if x.id in [t.id for t in tg.elts] else None
        if isinstance(tg, ast.Name) and isinstance(x, ast.Subscript) and isinstance(x.value, ast.Name) and x.value.id == tg.id and isinstance(x.slice, ast.Constant) and x.slice.value in (0, 1, -1, -2):
            return x.slice.value % 2
        return None

    def conj(p, n):
        """the sides required to be given (not None) by the conjunction p (negated when n); None: p is not a conjunction once the negation is pushed inside.
        Conjuncts the rule does not read are left out (they can only make the condition narrower)"""
        while isinstance(p, ast.UnaryOp) and isinstance(p.op, ast.Not):
            p, n = p.operand, not n
        if isinstance(p, ast.BoolOp):
            if isinstance(p.op, ast.And) == n:
                return None  # a disjunction
            out = set()
            for v in p.values:
                s = conj(v, n)
                if s is None:
                    if n:
                        return None
                    continue
                out |= s
            return out
        if isinstance(p, ast.Compare) and len(p.ops) == 1 and none(p.comparators[0]) and isinstance(p.ops[0], (ast.Is, ast.IsNot, ast.Eq, ast.NotEq)):
            given = isinstance(p.ops[0], (ast.IsNot, ast.NotEq)) != n
            s = side(p.left)
            return {s} if given and s is not None else set()
        return None if n else set()

    need: set = set()
    for f_ in gen.ifs:
        need |= conj(f_, False) or set()
    s = conj(k.args[0].elt, neg)
    if s is None:
        return None
    need |= s
    if need != {0, 1}:
        return None
    return f'`{unparse(e.test)}`' if kept(e.body) else f'`not ({unparse(e.test)})`'


def run(ctx: Ctx) -> None:
    ctx.positive_table = list(POSITIVE)
    prog = ctx.prog
    ctx.rule('C07.R1', 'sign-flip discipline: every field of the FunctionData returned by NegativeLikelihood is minus the same-named field of the likelihood '
             'output; hessian=True exactly in _f_g_h; the three methods evaluate the same (unscaled) function')
    ctx.rule('C07.R2', 'same point: the vector returned by optimize is the one passed to the final likelihood evaluation and to RawResults together with exactly that evaluation')
    ctx.rule('C07.R3', 'bounds: optimize passes id_manager.bounds (built in canonical order); every wrapper of optimization.py forwards bounds to its backend or warns that they are ignored')
    ctx.rule('C07.R4', 'write-back: after the results are built every formula gets change_init_values(results.get_beta_values()), which writes every given value '
             '(also 0.0) into the parameter of that name')
    ctx.rule('C07.R5', 'the engine holds the estimation data again when estimate returns (resamples are replaced on all exits)')
    ctx.rule('C07.R6', 'the algorithm names accepted by the parameter check are the keys of the table optimize looks up')
    ctx.not_decided += ['optimality, stationarity, agreement between algorithms (numerical optimisation)']

    NL = prog.cls('negative_likelihood', 'NegativeLikelihood')
    f = NL.methods['_f']
    rets = [n for n in walk_no_nested(f.node) if isinstance(n, ast.Return)]
    ok = len(rets) == 1 and isinstance(rets[0].value, ast.UnaryOp) and isinstance(rets[0].value.op, ast.USub) and isinstance(rets[0].value.operand, ast.Call) and unparse(rets[0].value.operand.func) == 'self.like'
    kw, whole = _flags(f.node, rets[0].value.operand) if ok else ({}, True)
    ok = ok and unparse(rets[0].value.operand.args[0]) == 'self.x' and kw.get('scaled') == 'False'
    # the contradiction: what is returned (locals resolved) is the value of self.like itself, not its opposite
    plain = [r for r in rets if r.value is not None and isinstance(inline_locals(f.node, r.value), ast.Call) and unparse(inline_locals(f.node, r.value).func) == 'self.like']
    ctx.add('C07.R1', 'NegativeLikelihood._f', ok if (ok or plain) else None, f, '_f = -like(x, scaled=False)' if ok else
            (f'_f returns {unparse(plain[0].value)}: the likelihood itself, not its opposite (the optimiser minimises)' if plain else f'_f returns {unparse(rets[0].value) if rets else "?"}'), unparse(rets[0].value) if rets else '', positive=bool(plain))
    #: what each method asks for `scaled`; None: the rule could not read it (not given by name, or given through a `**` it cannot resolve)
    scaled_vals = {kw.get('scaled')}
    for name, want_h in (('_f_g', 'False'), ('_f_g_h', 'True')):
        g = NL.methods[name]
        calls = [c for c in walk_no_nested(g.node) if isinstance(c, ast.Call) and unparse(c.func) == 'self.like_derivatives']
        ctx.need(len(calls) == 1, f'{name} calls like_derivatives once')
        kws, whole = _flags(g.node, calls[0])
        scaled_vals.add(kws.get('scaled'))
        ok = bool(calls[0].args) and unparse(calls[0].args[0]) == 'self.x' and kws.get('hessian') == want_h
        # the opposite constant is a contradiction; a flag the rule cannot read is not
        opposite = kws.get('hessian') in ('True', 'False') and kws.get('hessian') != want_h
        ctx.add('C07.R1', f'NegativeLikelihood.{name}:flags', ok if (ok or opposite) else None, (g.file, calls[0].lineno), f'{name} asks hessian={kws.get("hessian")}' + ('' if ok else f' (expected {want_h})'), str(sorted(kws.items())), positive=opposite)
        out = [n for n in walk_no_nested(g.node) if isinstance(n, ast.Assign) and n.value is calls[0]] + [n for n in walk_no_nested(g.node) if isinstance(n, ast.AnnAssign) and n.value is calls[0]]
        ov = unparse(out[0].targets[0] if isinstance(out[0], ast.Assign) else out[0].target) if out else None
        fd = [c for c in walk_no_nested(g.node) if isinstance(c, ast.Call) and call_name(c) == 'FunctionData']
        ctx.need(len(fd) == 1 and ov, f'{name} builds one FunctionData')
        for k in fd[0].keywords:
            v = unparse(k.value)
            if k.arg == 'hessian' and name == '_f_g':
                okk = v == 'None'
            else:
                okk = v == f'-{ov}.{k.arg}'
            # the contradiction: the same-named field of the likelihood output handed over as it is, not negated
            same_sign = not okk and v == f'{ov}.{k.arg}' and not (k.arg == 'hessian' and name == '_f_g')
            ctx.add('C07.R1', f'NegativeLikelihood.{name}.{k.arg}', okk if (okk or same_sign) else None, (g.file, fd[0].lineno), f'{k.arg} = {v}' + ('' if okk else f'; expected -{ov}.{k.arg}'), f'{k.arg}={v}', positive=same_sign)
    ok = scaled_vals == {'False'}
    # a method that asks for the scaled likelihood (scaled=True written out) while the property is about the unscaled one, or while another method
    # asks for the unscaled one, is the contradiction; a value the rule cannot read (None, an expression) leaves the verdict open
    differ = 'True' in scaled_vals
    ctx.add('C07.R1', 'NegativeLikelihood:one-function', ok if (ok or differ) else None, NL, 'value, gradient and Hessian are those of the same unscaled likelihood' if ok else
            (f'the three methods use scaled={sorted(map(str, scaled_vals))}' if differ else f'the value of `scaled` asked by the three methods is not in a form the rule can read ({sorted(map(str, scaled_vals))})'),
            str(sorted(map(str, scaled_vals))), positive=differ)
    ctx.floor('C07.R1', 9)

    B = prog.cls('biogeme', 'BIOGEME')
    for mname in ('estimate', 'quick_estimate'):
        e = B.methods[mname]
        cfg = cfg_of(e.node)
        opt = [n for n in walk_no_nested(e.node) if isinstance(n, ast.Assign) and isinstance(n.value, ast.Call) and unparse(n.value.func) == 'self.optimize' and not any('sample' in unparse(x) for x in [n])]
        main = [n for n in opt if 'free_betas_values' in unparse(n.value)]
        ctx.need(len(main) == 1, f'{mname}: one optimisation from the starting values')
        if isinstance(main[0].targets[0], ast.Tuple):
            unp = [main[0]]  # unpacked directly
        else:
            outv = unparse(main[0].targets[0])
            unp = [n for n in walk_no_nested(e.node) if isinstance(n, ast.Assign) and unparse(n.value) == outv and isinstance(n.targets[0], ast.Tuple)]
        ctx.need(len(unp) == 1, f'{mname}: the optimisation result is unpacked')
        xstar = unparse(unp[0].targets[0].elts[0])
        # (the evaluation may be stored in a local or stand where its value is used)
        ev = [n for n in walk_no_nested(e.node) if isinstance(n, ast.Call) and unparse(n.func) in ('self.calculate_likelihood_and_derivatives', 'self.calculate_likelihood') and seq(n) > seq(unp[0])]
        bound = prog.bind_call(e, ev[0]) if len(ev) == 1 else None
        # (a point or a flag kept in a local is that point, that flag)
        kws = {k: unparse(inline_locals(e.node, v)) for k, v in (bound or {}).items()}
        ok = bound is not None and kws.get('x') == xstar and kws.get('scaled') == 'False'
        # the contradictions: the scaled likelihood is asked for (True written out), or the point is an expression in which the result of the optimisation does not appear
        result_names = {xstar} | ({unparse(main[0].targets[0])} if not isinstance(main[0].targets[0], ast.Tuple) else set())
        elsewhere = bound is not None and 'x' in bound and not ({n_.id for n_ in ast.walk(inline_locals(e.node, bound['x'])) if isinstance(n_, ast.Name)} & result_names)
        contradicted = kws.get('scaled') == 'True' or elsewhere
        if len(ev) != 1 or bound is None:
            ctx.add('C07.R2', f'BIOGEME.{mname}:final-evaluation', None, e, f'{mname}: the evaluation of the likelihood at the result of the optimisation is not in the expected form ({len(ev)} evaluations after the optimisation)', 'missing')
        else:
            ctx.add('C07.R2', f'BIOGEME.{mname}:final-evaluation', ok if (ok or contradicted) else None, (e.file, ev[0].lineno), f'the final likelihood is evaluated at {xstar}, unscaled' if ok else
                    f'final evaluation: {unparse(ev[0])[:120]}; the reported value must be the unscaled likelihood at {xstar}', unparse(ev[0]), positive=contradicted)
        rr = [c for c in walk_no_nested(e.node) if isinstance(c, ast.Call) and unparse(c.func).endswith('RawResults')]
        okr = len(rr) == 1 and len(rr[0].args) >= 3 and unparse(rr[0].args[0]) == 'self' and unparse(rr[0].args[1]) == xstar
        ctx.add('C07.R2', f'BIOGEME.{mname}:results-point', okr, (e.file, rr[0].lineno if rr else e.line), f'RawResults receives {xstar}' if okr else f'RawResults receives {unparse(rr[0].args[1]) if rr and len(rr[0].args) > 1 else "?"}', unparse(rr[0]) if rr else '')
        if okr and ev:
            # the point that reaches RawResults is the one that was evaluated: only the unpacking of the main optimisation defines it
            at_r, at_e = cfg.node_of(rr[0]), cfg.node_of(ev[0])
            dr = {d.node for d in cfg.reaching(at_r, xstar)}
            de = {d.node for d in cfg.reaching(at_e, xstar)}
            want = cfg.node_of(unp[0])

            def origin(n_, depth=4):
                """'same': the definition at node n_ is the unpacking of the main optimisation, or re-binds the name to the value it had (`x = cast(T, x)`,
                `x = np.asarray(x)`, `x = x.copy()`); 'derived': computed from the result of the optimisation in a way the rule does not read;
                'other': another point"""
                if n_ == want:
                    return 'same'
                st_ = cfg.stmt.get(n_)
                tg_ = (st_.targets[0] if isinstance(st_, ast.Assign) and len(st_.targets) == 1 else st_.target if isinstance(st_, ast.AnnAssign) else None)
                if not (isinstance(tg_, ast.Name) and tg_.id == xstar) or getattr(st_, 'value', None) is None or depth == 0:
                    return 'other'
                v_ = st_.value
                while True:
                    if isinstance(v_, ast.Call) and call_name(v_) == 'cast' and len(v_.args) == 2 and not v_.keywords:
                        v_ = v_.args[1]
                    elif isinstance(v_, ast.Call) and unparse(v_.func) in ('np.asarray', 'np.array', 'numpy.asarray', 'numpy.array', 'np.copy', 'numpy.copy', 'copy.copy', 'copy.deepcopy', 'np.asarray_chkfinite') and len(v_.args) == 1 and not v_.keywords:
                        v_ = v_.args[0]
                    elif isinstance(v_, ast.Call) and isinstance(v_.func, ast.Attribute) and v_.func.attr == 'copy' and not v_.args and not v_.keywords:
                        v_ = v_.func.value
                    else:
                        break
                if isinstance(v_, ast.Name) and v_.id == xstar:
                    before = {origin(d_.node, depth - 1) for d_ in cfg.reaching(n_, xstar)}
                    return 'same' if before == {'same'} else ('other' if 'other' in before or not before else 'derived')
                return 'derived' if {x_.id for x_ in ast.walk(v_) if isinstance(x_, ast.Name)} & result_names else 'other'

            kinds = {origin(n_) for n_ in dr | de}
            # the evaluation and RawResults must see the same definition(s) of the point; a definition made in between, or one that is another point
            # than the result of the optimisation, is the contradiction; a point computed from the result in a way the rule does not read leaves it open
            # (all definitions being the same point is enough: `x = cast(T, x)` between the evaluation and RawResults re-binds the value it had)
            oks = True if (dr and de and kinds == {'same'}) else (None if (dr and de and 'other' not in kinds) else False)
            other = sorted(getattr(cfg.stmt.get(n), 'lineno', 0) for n in (dr | de) if origin(n) != 'same')
            ctx.add('C07.R2', f'BIOGEME.{mname}:same-point', oks, (e.file, rr[0].lineno),
                    f'the {xstar} handed to RawResults is the {xstar} of the final evaluation (defined once, by the main optimisation)' if oks
                    else f'{xstar} is computed again from the result of the optimisation before the final evaluation (line {", ".join(map(str, other))}), in a way the rule does not read: whether it is still the point returned by optimize is not decided' if oks is None
                    else f'{xstar} is assigned again between the main optimisation and RawResults{(" (line " + ", ".join(map(str, other)) + ")") if other else ""}: the reported point is not the point at which the likelihood and its derivatives were evaluated', 'same-point')
        if okr and ev:
            asg_ev = next((n for n in walk_no_nested(e.node) if isinstance(n, ast.Assign) and n.value is ev[0]), None)
            evn = unparse(asg_ev.targets[0]) if asg_ev is not None else unparse(ev[0])
            third = unparse(rr[0].args[2])
            # the third argument is the evaluation (through a local or in place), or an object built from its fields
            defs = [n for n in walk_no_nested(e.node) if isinstance(n, ast.Assign) and unparse(n.targets[0]) == third and n is not asg_ev]
            okv = third == evn or any(x is ev[0] for x in ast.walk(rr[0].args[2])) or (bool(defs) and all(evn in unparse(d.value) for d in defs))
            t3 = rr[0].args[2]
            if not okv and isinstance(t3, ast.Call) and call_name(t3) == 'BiogemeFunctionOutput':
                okv = named_args(t3).get('function') in (evn, f'{evn}.function')  # the output object built in place from the evaluation
            if mname == 'estimate':
                for d in defs:
                    if isinstance(d.value, ast.Call) and call_name(d.value) == 'BiogemeFunctionOutput':
                        kk = named_args(d.value)
                        okv = okv and kk.get('function') == f'{evn}.function' and kk.get('gradient') == f'{evn}.gradient' and kk.get('bhhh') == f'{evn}.bhhh'
            ctx.add('C07.R2', f'BIOGEME.{mname}:results-evaluation', okv, (e.file, rr[0].lineno), f'RawResults receives the evaluation made at {xstar}' if okv else f'RawResults receives {third}, not the evaluation at {xstar}', third)
    ctx.floor('C07.R2', 5)

    o = B.methods['optimize']
    from ..pattern import find, has

    bo = find(o.node, '_ALG = opt.algorithms.get(__NAME)')
    ctx.need(bo is not None, 'optimize looks the algorithm up in opt.algorithms')
    calls = [c for c in walk_no_nested(o.node) if isinstance(c, ast.Call) and unparse(c.func) == bo['_ALG']]
    ctx.need(len(calls) == 1, 'optimize calls the selected algorithm once')
    kws = named_args(calls[0])
    nlv = [unparse(n.targets[0]) for n in walk_no_nested(o.node) if isinstance(n, ast.Assign) and isinstance(n.value, ast.Call) and call_name(n.value) == 'NegativeLikelihood']
    ok = kws.get('bounds') == 'self.id_manager.bounds' and kws.get('init_betas') == 'starting_values' and nlv == [kws.get('fct')]
    free = [k_ for k_ in calls[0].keywords if k_.arg == 'bounds' and _unbounded(o.node, k_.value)]
    ctx.add('C07.R3', 'BIOGEME.optimize:bounds', ok if (ok or free) else None, (o.file, calls[0].lineno), 'the algorithm receives id_manager.bounds and the starting values' if ok else
            (f'the algorithm receives bounds={unparse(free[0].value)}: every parameter is handed over as unbounded, the declared bounds are not enforced' if free else f'algorithm called with {kws}'), str(sorted(kws.items())), positive=bool(free))
    nl = [c for c in walk_no_nested(o.node) if isinstance(c, ast.Call) and call_name(c) == 'NegativeLikelihood']
    kk = named_args(nl[0]) if nl else {}
    ok = kk.get('like') == 'self.calculate_likelihood' and kk.get('like_derivatives') == 'self.calculate_likelihood_and_derivatives' and kk.get('dimension') == 'self.id_manager.number_of_free_betas'
    ctx.add('C07.R3', 'BIOGEME.optimize:objective', ok, o, 'the objective is built from calculate_likelihood / calculate_likelihood_and_derivatives' if ok else f'objective: {kk}', str(sorted(kk.items())))
    sub = Ctx(prog, ctx.prop, ctx.tier)
    ord_pack(sub, 'C07.R3')
    for ob in sub.obligations:
        if 'bounds' in ob.construct or 'appearance-order' in ob.construct or ob.construct == 'expressions_names_indices':
            ctx.adopt('C07.R3', ob)
    om = prog.module('optimization')
    table = om.assigns.get('algorithms')
    ctx.need(isinstance(table, ast.Dict), 'optimization.algorithms is a dict literal')
    for k, v in zip(table.keys, table.values):
        name = const_value(k)
        r = prog.resolve_expr(om, v)
        ctx.need(r and r[0] == 'func', f'algorithm {name} resolves')
        g = r[1]
        # follows delegation to a sibling wrapper
        fw = [c for c in walk_no_nested(g.node) if isinstance(c, ast.Call)]
        # (the bounds may reach the backend through a local: `the_bounds = Bounds(bounds)`)
        def _is_bounds(a_):
            return unparse(inline_locals(g.node, a_)) in ('bounds', 'Bounds(bounds)')

        def _is_start(a_):
            return any(isinstance(x_, ast.Name) and x_.id == 'init_betas' for x_ in ast.walk(inline_locals(g.node, a_)))

        def _given(c_):
            return [a_ for a_ in c_.args if not isinstance(a_, ast.Starred)] + [kx.value for kx in c_.keywords if kx.arg]

        # (the call that receives the bounds must be the one that receives the starting point: the backend, or the sibling wrapper; `len(bounds)` is not)
        uses = [c for c in fw if any(_is_bounds(a) for a in _given(c)) and any(_is_start(a) for a in _given(c))]
        # (the warning must be issued, not only worded)
        warn = [n for n in walk_no_nested(g.node) if isinstance(n, ast.For) and unparse(n.iter) == 'bounds'
                and any(isinstance(c, ast.Call) and unparse(c.func) in ('logger.warning', 'logger.warn', 'logging.warning', 'warnings.warn', 'logger.error', 'logger.critical') and c.args
                        and 'will be ignored' in unparse(inline_locals(g.node, c.args[0])) for c in ast.walk(n))]
        ok = bool(uses) != bool(warn) or bool(uses)
        ctx.add('C07.R3', f'optimization.{g.name}:bounds', ok and (bool(uses) or bool(warn)), g,
                f'{name}: bounds ' + ('are forwarded to the backend' if uses else 'are ignored with a warning') if (uses or warn) else f'{name}: bounds are neither forwarded nor reported as ignored', 'fwd' if uses else 'warn' if warn else 'dropped')
        dropped = [a for a in walk_no_nested(g.node) if isinstance(a, ast.Assign) and any(unparse(t) == 'bounds' for t in a.targets) and isinstance(a.value, ast.Constant) and a.value.value is None]
        if dropped and uses:
            ctx.add('C07.R3', f'optimization.{g.name}:bounds-dropped', False, (g.file, dropped[0].lineno), f'{g.name} sets its parameter `bounds` to None (under a condition) before handing it to the backend: '
                    'declared bounds are then not enforced and estimates outside them are returned by an algorithm that supports bounds', 'dropped', positive=True)
        free = [kx for c in fw for kx in c.keywords if kx.arg == 'bounds' and _unbounded(g.node, kx.value)]
        if free:
            ctx.add('C07.R3', f'optimization.{g.name}:bounds-dropped', False, (g.file, free[0].value.lineno), f'{g.name} hands bounds={unparse(free[0].value)[:80]} to its backend: every parameter is unbounded there, '
                    'the declared bounds are not enforced', 'unbounded', positive=True)
        # the bounds are handed to the call that receives the starting point only under a condition (`bounds if <test> else None`, the test possibly
        # kept in a local): they may be withheld only when no bound at all is declared.  A test that counts a parameter as bounded only when BOTH its
        # sides are given leaves every one-sided bound out; any other test is not read (the obligation above stays 'not recognised')
        for c_ in fw:
            if not any(_is_start(a_) for a_ in _given(c_)):
                continue
            for a_ in _given(c_):
                why = _both_sides_only(inline_locals(g.node, a_))
                if why:
                    ctx.add('C07.R3', f'optimization.{g.name}:bounds-dropped', False, (g.file, a_.lineno), f'{g.name} hands the bounds to its backend only when {why}: a parameter with a single '
                            'bound (lower only or upper only) counts as unbounded, and when every bound is one-sided none of the declared bounds is enforced', 'one-sided', positive=True)
        if 'bounds' in str(name):
            # the name under which users select it promises bound support
            ctx.add('C07.R3', f'optimization.algorithms[{name}]:advertised', bool(uses), (om.path, k.lineno),
                    f'{name} is served by {g.name}, which forwards the bounds' if uses else
                    f'the algorithm selected as {name!r} is {g.name}, which does not hand the bounds to its backend (it ignores them): estimates outside the declared bounds are returned under a name that promises bound support', g.name,
                    positive=bool(warn))  # the wrapper says itself that it ignores them; bounds that go another way than the rule follows leave the verdict open
    ctx.floor('C07.R3', 12)

    # R4
    e = B.methods['estimate']
    cfg = cfg_of(e.node)
    rr = [n for n in walk_no_nested(e.node) if isinstance(n, ast.Assign) and isinstance(n.value, ast.Call) and unparse(n.value.func).endswith('bioResults') and n.value.args and ('raw_results' in unparse(n.value.args[0]) or 'RawResults(' in unparse(n.value.args[0]))]
    ctx.need(len(rr) == 1, 'estimate builds the results object once')
    rv = unparse(rr[0].targets[0])
    loops = [n for n in walk_no_nested(e.node) if isinstance(n, ast.For) and unparse(n.iter) == 'self.formulas.values()' and 'change_init_values' in unparse(n)]
    ok = False
    det = ''
    if len(loops) == 1:
        lp = loops[0]
        det = unparse(lp)
        tv = unparse(lp.target)
        arg = unparse(lp.body[0].value.args[0]) if isinstance(lp.body[0], ast.Expr) and isinstance(lp.body[0].value, ast.Call) and lp.body[0].value.args else ''
        defs = [n for n in walk_no_nested(e.node) if isinstance(n, ast.Assign) and unparse(n.targets[0]) == arg]
        src = unparse(defs[0].value) if defs else arg
        ok = unparse(lp.body[0]).startswith(f'{tv}.change_init_values(') and src == f'{rv}.get_beta_values()' and len(lp.body) == 1
        rets = [n for n in walk_no_nested(e.node) if isinstance(n, ast.Return) and unparse(n.value) == rv]
        ok = ok and bool(rets) and all(cfg.dominates(cfg.node_of(lp), cfg.node_of(r)) for r in rets)
    ctx.add('C07.R4', 'BIOGEME.estimate:write-back', ok, e, 'every formula gets the estimates before the results are returned' if ok else f'write-back of the estimates: {det[:120] or "missing"}', det)
    q = B.methods['quick_estimate']
    okq = any(isinstance(n, ast.Call) and call_name(n) == 'change_init_values' for n in ast.walk(q.node))
    ctx.add('C07.R4', 'BIOGEME.quick_estimate:write-back', okq, q, 'quick_estimate writes the estimates back' if okq else 'quick_estimate returns the estimates but never writes them back to the formulas (starting values stay unchanged)', 'no change_init_values')
    beta = prog.cls('expressions.beta_parameters', 'Beta')
    ci = beta.methods['change_init_values']
    tests = [n for n in walk_no_nested(ci.node) if isinstance(n, ast.If) and any(isinstance(x, ast.Assign) and unparse(x.targets[0]) == 'self.initValue' for x in n.body)]
    okb = len(tests) == 1
    det = unparse(tests[0].test) if tests else ''
    if okb:
        terms = tests[0].test.values if isinstance(tests[0].test, ast.BoolOp) and isinstance(tests[0].test.op, ast.And) else [tests[0].test]
        okb = all(re.fullmatch(r'\w+ is not None|\w+ != self\.initValue|self\.name in \w+', unparse(t)) for t in terms)
    truthy = False
    if tests and not okb:
        # a bare truth test of the value among the guards drops 0.0
        written = {unparse(x.value) for n in tests for x in n.body if isinstance(x, ast.Assign) and unparse(x.targets[0]) == 'self.initValue'}
        truthy = any((isinstance(t, ast.Name) and t.id in written) for t in terms)
    ctx.add('C07.R4', 'Beta.change_init_values:guard', okb if (okb or truthy) else None, ci, f'a value is written whenever it is given ({det})' if okb else
            (f'the write of initValue is guarded by `{det}`: the truth test of the value skips a legitimate value of 0.0' if truthy else f'the guard `{det}` of the write of initValue is not in the expected form'), det, positive=truthy)

    # R7: option tables: one option, one variable
    ctx.rule('C07.R7', 'option tables: in the functions that read the dictionary of algorithm parameters, `if <key> in parameters: <variable> = parameters[<key>]` reads the key it tested, and no two '
             'different keys are read into the same variable (the tolerance of the user must not be overwritten by another option)')
    n_opt = 0
    for modname in ('negative_likelihood', 'optimization'):
        for fn_ in prog.module(modname).all_functions:
            reads = []  # (variable, key, guard key, node)
            for i_ in walk_no_nested(fn_.node):
                if isinstance(i_, ast.If) and isinstance(i_.test, ast.Compare) and len(i_.test.ops) == 1 and isinstance(i_.test.ops[0], ast.In) and isinstance(i_.test.left, ast.Constant) and unparse(i_.test.comparators[0]) == 'parameters':
                    for a_ in i_.body:
                        if isinstance(a_, ast.Assign) and isinstance(a_.targets[0], ast.Name) and isinstance(a_.value, ast.Subscript) and unparse(a_.value.value) == 'parameters' and isinstance(a_.value.slice, ast.Constant):
                            reads.append((a_.targets[0].id, a_.value.slice.value, i_.test.left.value, a_))
            by_var: dict[str, set] = {}
            for v_, k_, g_, a_ in reads:
                by_var.setdefault(v_, set()).add(k_)
            for v_, k_, g_, a_ in reads:
                n_opt += 1
                clash = sorted(by_var[v_] - {k_})
                okk = k_ == g_ and not clash
                ctx.add('C07.R7', f'{fn_.qualname}:{v_}<-{k_}', okk, (fn_.file, a_.lineno), f'{v_} = parameters[{k_!r}] under its own test' if okk else
                        (f'{v_} is read from parameters[{k_!r}] under the test of {g_!r}' if k_ != g_ else f'{v_} receives the option {k_!r} and also the option {clash[0]!r}: the later one overwrites the other, which is then ignored by the algorithm'),
                        f'{v_}<-{k_}', positive=True)
    if n_opt < 15:
        raise AnalysisError(f'C07.R7: only {n_opt} option reads found in negative_likelihood / optimization')
    restore_rule(ctx, 'C07.R5')
    # R6
    ca = prog.func('check_parameters', 'check_algo_name')
    txt = unparse(ca.node)
    ok = "['automatic'] + list(opt.algorithms.keys())" in txt
    ctx.add('C07.R6', 'check_algo_name', ok, ca, 'accepted names = automatic + keys of optimization.algorithms' if ok else 'accepted algorithm names are no longer derived from optimization.algorithms', 'names')
    ok = has(o.node, "_NAME = 'simple_bounds' if self.optimization_algorithm == 'automatic' else self.optimization_algorithm\n_ALG = opt.algorithms.get(_NAME)")
    ctx.add('C07.R6', 'BIOGEME.optimize:lookup', ok, o, 'optimize looks the name up in the same table (automatic -> simple_bounds)' if ok else 'algorithm lookup changed', 'lookup')


_B = 'src/biogeme/biogeme.py'
_N = 'src/biogeme/negative_likelihood.py'
_O = 'src/biogeme/optimization.py'
MUTANTS = [
    dict(name='_f_g_h returns the Hessian un-negated', rule='C07.R1', file=_N, old='            hessian=-the_function_output.hessian,', new='            hessian=the_function_output.hessian,'),
    dict(name='_f_g returns gradient of the scaled function', rule='C07.R1', file=_N,
         old='            self.x, scaled=False, hessian=False, bhhh=False, batch=None', new='            self.x, scaled=True, hessian=False, bhhh=False, batch=None'),
    dict(name='_f_g_h does not ask for the Hessian', rule='C07.R1', file=_N,
         old='            self.x, scaled=False, hessian=True, bhhh=False, batch=None', new='            self.x, scaled=False, hessian=False, bhhh=True, batch=None'),
    dict(name='_f not negated', rule='C07.R1', file=_N, old='        return -self.like(self.x, scaled=False, batch=None)', new='        return self.like(self.x, scaled=False, batch=None)'),
    dict(name='results built at the starting values', rule='C07.R2', file=_B,
         old='        raw_results = res.RawResults(\n            self, xstar, f_g_h_b, bootstrap=self.bootstrap_results\n        )', new='        raw_results = res.RawResults(\n            self, self.id_manager.free_betas_values, f_g_h_b, bootstrap=self.bootstrap_results\n        )'),
    dict(name='final evaluation scaled', rule='C07.R2', file=_B,
         old='            xstar, scaled=False, hessian=True, bhhh=True\n        )', new='            xstar, scaled=True, hessian=True, bhhh=True\n        )'),
    dict(name='optimize drops the bounds', rule='C07.R3', file=_B, old='            bounds=self.id_manager.bounds,', new='            bounds=[(None, None)] * len(starting_values),'),
    dict(name='simple_bounds wrapper builds empty bounds', rule='C07.R3', file=_O, old='        bounds=Bounds(bounds),', new='        bounds=Bounds([(None, None) for _ in bounds]),'),
    dict(name='bounds follow the order of appearance (seed C07/1)', rule='C07.R3', file='src/biogeme/expressions/idmanager.py',
         old='            for b in self.free_betas.names\n        ]', new='            for b in self.free_betas.expressions\n        ]'),
    dict(name='estimates written back only to the log likelihood', rule='C07.R4', file=_B, replace_all=True,
         old='        for f in self.formulas.values():\n            f.change_init_values(estimated_betas)', new='        self.log_like.change_init_values(estimated_betas)'),
    dict(name='zero estimates are not written back (seed C07/2)', rule='C07.R4', file='src/biogeme/expressions/beta_parameters.py',
         old='        if value is not None and value != self.initValue:', new='        if value and value != self.initValue:'),
    dict(name='pre-fix: no restore after bootstrapping', rule='C07.R5', file=_B,
         old='            finally:\n                self.save_iterations = saving_iterations\n                # The engine must work again with the full sample\n                if self.database.is_panel():\n                    self.theC.setDataMap(self.database.individualMap)\n                else:\n                    self.theC.setData(self.database.data)\n',
         new='            finally:\n                self.save_iterations = saving_iterations\n'),
    dict(name='check_algo_name uses a literal list', rule='C07.R6', file='src/biogeme/check_parameters.py',
         old="    possibilities = ['automatic'] + list(opt.algorithms.keys())", new="    possibilities = ['automatic', 'scipy', 'simple_bounds', 'TR-newton']"),
]
NEUTRAL = [
    dict(name='write-back loop variable renamed', file=_B, replace_all=True,
         old='        for f in self.formulas.values():\n            f.change_init_values(estimated_betas)', new='        for formula in self.formulas.values():\n            formula.change_init_values(r.get_beta_values())'),
]
