"""C20 - every deprecated name behaves exactly like its replacement."""

from __future__ import annotations

import ast
import re

from ..core import inline_locals, call_name, seq, FuncInfo, ClassInfo, Program, const_value, dotted, strip_docstring, unparse, walk_no_nested
from ..report import Ctx

#: old -> new pairs whose names do not coincide after normalisation and whose
#: stub carries no "Same as <new>" sentence; confirmed by reading.
RENAMES = {
    'segment_parameter': 'segmented_beta',  # segmentation.py: same signature, docstring "use segmented_beta"
    'cnl_avail': 'cnl',  # models/cnl.py: the availability argument became part of cnl; stub "Same as cnl"
    'logcnl_avail': 'logcnl',  # models/cnl.py: stub "Same as logcnl"
}

#: obsolete keyword -> new keyword pairs that are genuine renames
KEYWORD_RENAMES = {
    ('parameter_file', 'parameters'),  # BIOGEME.__init__: the file name is one admissible `parameters` value
    ('seed_param', 'seed'),
    ('bootstrap', 'run_bootstrap'),
}


def normalise(name: str) -> str:
    return name.replace('_', '').lower()


def deprecated_target(f: FuncInfo) -> ast.expr | None:
    d = f.decorator_call('deprecated')
    if d is None:
        return None
    if d.args:
        return d.args[0]
    for k in d.keywords:
        if k.arg == 'new_func':
            return k.value
    return None


def is_static(f: FuncInfo) -> bool:
    return 'staticmethod' in f.decorators()


def wrapper_shape(ctx: Ctx):
    """Analyse deprecated.deprecated once: returns (dispatches_on_receiver, problems)."""
    prog = ctx.prog
    dep = prog.func('deprecated', 'deprecated')
    mod = dep.module
    #: (node, text, fact): fact=True only for something that contradicts the property whatever the style of the wrapper; the others say
    #: that the wrapper is not written as expected and leave the verdict open
    problems: list[tuple[ast.AST, str, bool]] = []
    new_param = dep.positional_params()[0] if dep.positional_params() else None
    ctx.need(new_param, 'deprecated(new_func) has a first parameter')
    decorator = next((g for g in mod.all_functions if g.parent is dep), None)
    ctx.need(decorator, 'deprecated() defines an inner decorator function')
    wrapper = next((g for g in mod.all_functions if g.parent is decorator), None)
    ctx.need(wrapper, 'deprecated() defines an inner wrapper function')
    old_param = decorator.positional_params()[0]
    # deprecated returns the decorator, the decorator returns the wrapper
    rets = [s for s in dep.body if isinstance(s, ast.Return)]
    if not (len(rets) == 1 and isinstance(rets[0].value, ast.Name) and rets[0].value.id == decorator.name):
        problems.append((dep.node, 'deprecated() does not return its decorator', False))
    rets = [s for s in decorator.body if isinstance(s, ast.Return)]
    if not (len(rets) == 1 and isinstance(rets[0].value, ast.Name) and rets[0].value.id == wrapper.name):
        problems.append((decorator.node, 'the decorator does not return the wrapper', False))
    wa = wrapper.node.args
    if not (wa.vararg and wa.kwarg and not wa.args and not wa.kwonlyargs):
        problems.append((wrapper.node, 'wrapper signature is not (*args, **kwargs)', False))
        return False, problems, dep
    va, kw = wa.vararg.arg, wa.kwarg.arg

    def is_forward(call: ast.AST, func_ok) -> bool:
        return (
            isinstance(call, ast.Call)
            and func_ok(call.func)
            and len(call.args) == 1
            and isinstance(call.args[0], ast.Starred)
            and len(call.keywords) == 1
            and call.keywords[0].arg is None
            and isinstance(call.keywords[0].value, ast.Name)
            and call.keywords[0].value.id == kw
        )

    def plain_new(fn):
        return isinstance(fn, ast.Name) and fn.id == new_param

    def receiver_getattr(fn):
        # getattr(args[0], new_func.__name__)
        return (
            isinstance(fn, ast.Call)
            and isinstance(fn.func, ast.Name)
            and fn.func.id == 'getattr'
            and len(fn.args) == 2
            and unparse(fn.args[0]) == f'{va}[0]'
            and unparse(fn.args[1]) == f'{new_param}.__name__'
        )

    # module constant RAISE_EXCEPTION must be False
    raise_const = mod.assigns.get('RAISE_EXCEPTION')
    from ..core import inline_locals

    dispatch = False
    final_ok = False
    warned = False
    unknown: list[ast.AST] = []
    own_only: list[str] = []

    aliases: dict[str, ast.expr] = {}
    stores: dict[str, int] = {}
    for n_ in walk_no_nested(wrapper.node):
        if isinstance(n_, ast.Name) and isinstance(n_.ctx, (ast.Store, ast.Del)):
            stores[n_.id] = stores.get(n_.id, 0) + 1

    def resolve(e: ast.expr) -> ast.expr:
        """the expression with the single-definition locals and the names given to args[0] / args[1:] written out"""
        import copy

        class T(ast.NodeTransformer):
            def visit_Name(self, n):
                return copy.deepcopy(aliases[n.id]) if isinstance(n.ctx, ast.Load) and n.id in aliases else n

        return ast.fix_missing_locations(T().visit(inline_locals(wrapper.node, e)))

    def flag_ok(t: ast.expr) -> bool:
        """a harmless test about the receiver: the is-a-method flag, `args`, hasattr(type(args[0]) | args[0], new_func.__name__)"""
        t = resolve(t)
        txt = unparse(t)
        if txt == va:
            return True
        if isinstance(t, ast.Name) and _is_method_flag(decorator, t.id, old_param):
            return True
        if txt in (f'{new_param}.__name__ in vars(type({va}[0]))', f'{new_param}.__name__ in type({va}[0]).__dict__'):
            own_only.append(txt)  # true only when the class of the receiver itself defines the replacement
            return True
        return txt in (f'hasattr(type({va}[0]), {new_param}.__name__)', f'hasattr({va}[0], {new_param}.__name__)')

    def walk(stmts, conds):
        nonlocal dispatch, final_ok, warned
        for st in stmts:
            if isinstance(st, ast.Expr) and isinstance(st.value, ast.Constant):
                continue
            if isinstance(st, ast.Assign) and len(st.targets) == 1 and isinstance(st.targets[0], ast.Name):
                # a local: the message, or a name for part of the forwarding expression (looked through below)
                v = st.value
                pure = not any(isinstance(n, ast.Call) and not (isinstance(n.func, ast.Name) and n.func.id in ('getattr', 'hasattr', 'type', 'str', 'len')) for n in ast.walk(v))
                if isinstance(v, (ast.JoinedStr, ast.Constant)) or pure:
                    continue
                unknown.append(st)
                continue
            if isinstance(st, ast.Expr) and isinstance(st.value, ast.Call) and dotted(st.value.func) == 'warnings.warn':
                cat = st.value.args[1] if len(st.value.args) > 1 else None
                if cat is not None and unparse(cat) not in ('DeprecationWarning', 'FutureWarning', 'PendingDeprecationWarning'):
                    problems.append((st, f'the warning category is {unparse(cat)}', False))
                if conds:
                    problems.append((st, 'the warning is issued only under a condition', False))
                warned = True
                continue
            if isinstance(st, ast.If) and isinstance(st.test, ast.Name) and st.test.id == 'RAISE_EXCEPTION':
                try:
                    on = bool(const_value(raise_const))
                except ValueError:
                    on = True
                if on:
                    problems.append((st, 'RAISE_EXCEPTION is not the constant False: every alias raises instead of forwarding', True))
                if not all(isinstance(x, ast.Raise) or (isinstance(x, ast.Assign) and isinstance(x.value, (ast.JoinedStr, ast.Constant))) for x in st.body) or st.orelse:
                    problems.append((st, 'the RAISE_EXCEPTION branch does more than raise', False))
                continue
            if isinstance(st, ast.If):
                terms = st.test.values if isinstance(st.test, ast.BoolOp) and isinstance(st.test.op, ast.And) else [st.test]
                if all(flag_ok(t) for t in terms) and not st.orelse:
                    walk(st.body, conds + terms)
                    continue
                unknown.append(st)
                continue
            if isinstance(st, ast.Assign) and len(st.targets) == 1 and isinstance(st.targets[0], ast.Tuple) and isinstance(st.value, ast.Name) and st.value.id == va:
                # `receiver, *rest = args`: names for args[0] and args[1:]
                els = st.targets[0].elts
                if len(els) == 2 and isinstance(els[0], ast.Name) and isinstance(els[1], ast.Starred) and isinstance(els[1].value, ast.Name) \
                        and all(stores.get(x) == 1 for x in (els[0].id, els[1].value.id)):
                    aliases[els[0].id] = ast.parse(f'{va}[0]', mode='eval').body
                    aliases[els[1].value.id] = ast.parse(f'{va}[1:]', mode='eval').body
                    continue
                unknown.append(st)
                continue
            if isinstance(st, ast.Return):
                v = resolve(st.value) if st.value is not None else None
                if not isinstance(v, ast.Call):
                    unknown.append(st)  # what is returned is not a call the rule can read
                elif conds:
                    if is_forward(v, receiver_getattr) and unparse(v.args[0].value) == f'{va}[1:]':
                        # the receiver dispatch needs at least: there is a receiver
                        dispatch = True
                    elif receiver_getattr(v.func):
                        # the receiver's own replacement IS called, with other arguments than the ones the alias received
                        problems.append((st, f'under the receiver tests the wrapper returns {unparse(v)} instead of getattr({va}[0], {new_param}.__name__)(*{va}[1:], **{kw}): the replacement does not get the arguments of the call', True))
                    elif is_forward(v, plain_new) and unparse(v.args[0].value) == va:
                        pass  # the captured replacement with all arguments: the plain forwarding, no dispatch here
                    else:
                        unknown.append(st)  # the callee is chosen in a way the rule does not follow: not an accusation
                else:
                    if is_forward(v, plain_new) and unparse(v.args[0].value) == va:
                        final_ok = True
                    elif not plain_new(v.func):
                        unknown.append(st)  # the callee is chosen in a way the rule does not follow (a helper, a local): not an accusation
                    else:
                        problems.append((st, f'the wrapper returns {unparse(v)} instead of {new_param}(*{va}, **{kw}): the replacement does not get the arguments of the call', True))
                continue
            unknown.append(st)

    walk(wrapper.body, [])
    if not final_ok and not unknown and not any('returns' in p[1] for p in problems):
        # every statement was read: a call that is not dispatched on the receiver falls off the end of the wrapper
        problems.append((wrapper.node, f'the wrapper does not end with `return {new_param}(*{va}, **{kw})`', True))
    if not warned and not unknown:
        problems.append((wrapper.node, 'the wrapper issues no warning', True))
    wrapper_shape.unknown = unknown
    wrapper_shape.own_only = bool(own_only) and dispatch
    return dispatch, problems, dep


def _is_method_flag(decorator: FuncInfo, name: str, old_param: str) -> bool:
    """``name`` is assigned in the decorator from old_func.__qualname__ (is the alias a method?)"""
    from ..core import inline_locals

    for st in decorator.body:
        if isinstance(st, ast.Assign) and any(isinstance(t, ast.Name) and t.id == name for t in st.targets):
            return f'{old_param}.__qualname__' in unparse(inline_locals(decorator.node, st.value))
    return False


#: obligations whose failure contradicts the property (rule, construct pattern, why); every other failure is 'not recognised'
POSITIVE: list[tuple[str, str, str]] = [
    # D1, D2, D6, D7 pass positive= themselves, under the exact condition that contradicts the property (see the comments there)
    ('C20.D3', r'.', 'an alias of a static replacement is not static'),
    ('C20.D4', r'.', 'resolved dispatch: on a subclass the old name runs another function than the new name'),
]


def run(ctx: Ctx) -> None:
    ctx.positive_table = list(POSITIVE)
    prog = ctx.prog
    ctx.rule('C20.D1', 'the argument of every @deprecated(...) resolves to a function of the same class body, module or import')
    ctx.rule(
        'C20.D2',
        'right replacement: old and new name coincide after dropping case and underscores, or the stub says '
        '"Same as <new>", or the pair is in the frozen rename table; a log-prefixed alias points to a '
        'log-prefixed function',
    )
    ctx.rule('C20.D3', 'an alias in a class body whose replacement is a staticmethod / module function is itself a staticmethod')
    ctx.rule(
        'C20.D4',
        'dispatch on the receiver: for every class S and every alias visible on S the function the alias runs is the '
        'function S().<new name> resolves to (S redeclares the alias next to its override, or the wrapper of '
        'deprecated.py dispatches with getattr(args[0], new_func.__name__))',
    )
    ctx.rule('C20.D5', 'the alias wrappers add nothing but the warning: message, constant-false RAISE_EXCEPTION branch, warnings.warn, forwarding return')
    ctx.rule('C20.D6', 'every non-None target of an obsolete_params table is a parameter the decorated function accepts, and is the same-named keyword')
    ctx.rule('C20.D7', 'hand-written obsolete property aliases (logger.warning "Use <new> instead of <old>") read and write the new property')

    dispatch, problems, dep = wrapper_shape(ctx)
    unknown = getattr(wrapper_shape, 'unknown', [])
    facts = [p for p in problems if p[2]]
    if facts:
        # something that contradicts the property whatever else the wrapper does
        ctx.add('C20.D5', 'deprecated.deprecated.wrapper', False, dep, '; '.join(p[1] for p in facts), detail='; '.join(p[1] for p in facts), positive=True)
    elif problems or unknown:
        # anything the rule could not read leaves the verdict open
        ctx.shape('C20.D5', 'deprecated.deprecated.wrapper', False, dep, '', 'message, constant-false RAISE_EXCEPTION branch, warnings.warn, receiver dispatch under harmless tests, forwarding return; found besides: '
                  + ' | '.join([p[1] for p in problems] + [unparse(u)[:60] for u in unknown[:3]]))
    else:
        ctx.add('C20.D5', 'deprecated.deprecated.wrapper', True, dep, 'wrapper forwards and only warns')
    _check_param_wrapper(ctx)

    aliases: list[tuple[FuncInfo, ast.expr]] = []
    for f in prog.all_functions():
        t = deprecated_target(f)
        if t is not None:
            aliases.append((f, t))
        elif (d0 := f.decorator_call('deprecated')) is not None:
            # deprecated() called with nothing at all fails when the module is imported; any other spelling is not followed
            empty = not d0.args and not d0.keywords
            ctx.add('C20.D1', f'{f.module.name}:{f.qualname}', False if empty else None, f, '@deprecated() is called without a replacement' if empty else f'the replacement given to {unparse(d0)} is not followed', 'no target', positive=empty)

    for f, t in aliases:
        construct = f'{f.module.name}:{f.qualname}'
        new_name = dotted(t)
        target = None
        unbound = None
        if f.cls is not None and isinstance(t, ast.Name) and t.id in f.cls.methods:
            target = f.cls.methods[t.id]
            if seq(target.node) > seq(f.node):
                target = None  # not yet bound when the decorator runs
        if target is None:
            r = prog.resolve_expr(f.module, t)
            if r is not None and r[0] == 'func':
                target = r[1]
            elif r is None and isinstance(t, ast.Name):
                # a bare name that nothing binds where the decorator is evaluated: a method of the class defined further down, or a
                # name that neither the class body nor the module defines or imports (NameError when the module is imported)
                import builtins

                m_ = f.module
                star = any(isinstance(x, ast.ImportFrom) and any(a.name == '*' for a in x.names) for x in ast.walk(m_.tree))
                in_class = f.cls is not None and (t.id in f.cls.assigns or any(isinstance(x, ast.Name) and x.id == t.id and isinstance(x.ctx, ast.Store) for st_ in f.cls.node.body if not isinstance(st_, (ast.FunctionDef, ast.ClassDef)) for x in ast.walk(st_)))
                in_module = any(isinstance(x, ast.Name) and x.id == t.id and isinstance(x.ctx, ast.Store) for x in ast.walk(m_.tree)) or t.id in m_.imports or t.id in m_.classes or t.id in m_.functions
                outer = f.parent is not None  # an alias declared inside a function: enclosing scopes not followed
                if not star and not in_class and not in_module and not outer and not hasattr(builtins, t.id):
                    later = f.cls is not None and t.id in f.cls.methods
                    unbound = f'{t.id} is defined further down in the class body: the name is not bound yet when the decorator runs' if later else f'nothing binds the name {t.id} in the class body or in the module'
        ctx.add('C20.D1', construct, True if target is not None else False if unbound else None, f,
                f'replacement {new_name} resolves' if target else f'replacement {unparse(t)} does not resolve to a function' + (f': {unbound}' if unbound else ' the rule can follow'),
                detail=unparse(t), positive=bool(unbound))
        if target is None:
            continue
        old, new = f.name, target.name
        doc = ast.get_docstring(f.node) or ''
        same_as = re.search(r'Same as (\w+)', doc)
        # the names the replacement may have: the old name in the new naming scheme, the frozen rename, the one the stub documents
        wanted = {n_ for n_ in ([RENAMES.get(old)] + ([same_as.group(1)] if same_as else [])) if n_}
        ok = normalise(old) == normalise(new) or new in wanted or any(normalise(w_) == normalise(new) for w_ in wanted)
        why = f' (stub documents "Same as {same_as.group(1)}")' if same_as else ''
        if ok and old.lower().startswith('log') != new.lower().startswith('log'):
            ok = False
            why = ' (log-prefix parity)'
        rival = None
        if not ok:
            # the contradiction: ANOTHER function that carries one of those names is reachable where the replacement was looked up
            scope = {}
            if target.cls is not None:
                for c_ in reversed(target.cls.mro()):
                    scope.update(c_.methods)
            else:
                scope.update(target.module.functions)
            log_ok = lambda n_: old.lower().startswith('log') == n_.lower().startswith('log')  # noqa: E731
            rival = next((g for n_, g in scope.items() if g is not target and (n_ in wanted or normalise(n_) == normalise(old)) and log_ok(n_)), None)
            why += f': {rival.qualname} is the function that carries the old name in the new naming scheme' if rival is not None else ': no function with the expected name found, the pair is not decided'
        ctx.add('C20.D2', construct, True if ok else False if rival is not None else None, f, f'{old} -> {new}{why}', detail=f'{old}->{new}', positive=rival is not None)
        # D3
        if f.cls is not None:
            target_needs_no_self = target.cls is None or is_static(target)
            if target_needs_no_self:
                ctx.add('C20.D3', construct, is_static(f), f,
                        f'{old} forwards to {new}, which takes no receiver; the alias '
                        + ('is a staticmethod' if is_static(f) else 'is an instance method, so the receiver is passed as first argument'),
                        detail=f'{old}->{new}')
            elif is_static(f):
                ctx.add('C20.D3', construct, False, f, f'{old} is a staticmethod but {new} is an instance method', detail=f'{old}->{new}')

    # D4: class x alias
    n_pairs = 0
    for S in prog.all_classes():
        seen = set()
        for c in S.mro():
            for name, f in c.methods.items():
                if name in seen:
                    continue
                seen.add(name)
                t = deprecated_target(f)
                if t is None or not isinstance(t, ast.Name):
                    continue
                if S.resolve(name) is not f:
                    continue
                A = f.cls
                captured = A.methods.get(t.id)
                if captured is None:
                    continue  # module-level replacement: D3
                if is_static(f):
                    continue
                actual = S.resolve(t.id)
                n_pairs += 1
                if unknown and not dispatch:
                    ok = True if actual is captured else None  # the wrapper has a shape the rule does not know: no verdict on the dispatch
                elif getattr(wrapper_shape, 'own_only', False):
                    # the wrapper looks the replacement up in the receiver's own class only
                    ok = actual is captured or t.id in S.methods
                else:
                    ok = dispatch or actual is captured
                ctx.add('C20.D4', f'{S.name}.{name}', ok, (f.file, f.line),
                        f'{S.name}().{name}() runs {captured.qualname}'
                        + ('' if actual is captured else f' while {S.name}().{t.id}() runs {actual.qualname}')
                        + (' (wrapper dispatches on the receiver)' if dispatch and actual is not captured and ok else '')
                        + (' (the wrapper dispatches only when the class of the receiver itself defines the replacement)' if ok is False and getattr(wrapper_shape, 'own_only', False) else '')
                        + (' - shape of the wrapper not recognised, dispatch not decided' if ok is None else ''),
                        detail=f'{captured.qualname}!={actual.qualname if actual else None}')
    ctx.floor('C20.D1', 100)
    ctx.floor('C20.D4', 150)

    # D6
    for f in prog.all_functions():
        d = f.decorator_call('deprecated_parameters')
        if d is None:
            continue
        table = d.args[0] if d.args else next((k.value for k in d.keywords if k.arg == 'obsolete_params'), None)
        construct = f'{f.module.name}:{f.qualname}'
        if isinstance(table, (ast.Name, ast.Attribute)):
            # a table kept in a constant of the module (own or imported) or of the class: read through the assignment
            r = prog.resolve_expr(f.module, table)
            if r is None and isinstance(table, ast.Name) and f.cls is not None and table.id in f.cls.assigns and seq(f.cls.assigns[table.id]) < seq(f.node):
                r = ('value', f.module, f.cls.assigns[table.id])
            if r is not None and r[0] == 'value' and isinstance(r[2], ast.Dict) and _bound_once(r[1], table):
                table = r[2]
        if not isinstance(table, ast.Dict):
            ctx.add('C20.D6', construct, None, f, f'obsolete_params is not a dict literal the rule can read: {unparse(table)[:60]}', detail=unparse(table))
            continue
        params = set(f.params())
        extra, extra_complete = set(), True
        if f.node.args.kwarg is not None:
            extra, extra_complete = _default_parameter_names(prog)
        for k, v in zip(table.keys, table.values):
            try:
                old, new = const_value(k), const_value(v)
            except ValueError:
                ctx.add('C20.D6', construct, None, f, f'non-literal entry {unparse(k)}: {unparse(v)}', detail=unparse(k))
                continue
            # contradictions: a keyword declared "ignored" that the function takes (its value is thrown away), a target that is
            # not a parameter of the decorated function (TypeError), a target that is the new spelling of ANOTHER parameter
            if new is None:
                ctx.add('C20.D6', f'{construct}[{old}]', old not in params, f, f'{old!r} is ignored' + ('' if old not in params else f' although it is a parameter of {f.qualname}: the value given by the caller is thrown away'), detail=f'{old}->None', positive=True)
                continue
            ok = new in params or new in extra
            same = normalise(old) == normalise(new) or (old, new) in KEYWORD_RENAMES
            msg = f'{old!r} -> {new!r}'
            if not ok:
                msg += f': {new!r} is not a parameter of {f.qualname}'
            elif not same:
                msg += ': old and new keyword do not name the same parameter'
            if not ok and not extra_complete:
                # the function takes **kwargs and the list of the names it accepts that way is not read completely
                ctx.add('C20.D6', f'{construct}[{old}]', None, f, msg + ' that the rule knows of (the table of the default parameters is not read completely)', detail=f'{old}->{new}')
                continue
            ctx.add('C20.D6', f'{construct}[{old}]', ok and same, f, msg, detail=f'{old}->{new}', positive=True)
    ctx.floor('C20.D6', 25)

    _obsolete_properties(ctx)


def _bound_once(module, ref: ast.expr) -> bool:
    """the module-level constant named by ``ref`` is bound by one statement of that module and never updated through its name
    (no second assignment, no augmented assignment, no <name>[...] = / del / .update / .pop / .setdefault / .clear on it)"""
    name = ref.id if isinstance(ref, ast.Name) else ref.attr
    n_store = 0
    for x in ast.walk(module.tree):
        if isinstance(x, ast.Name) and x.id == name and isinstance(x.ctx, (ast.Store, ast.Del)):
            n_store += 1
        elif isinstance(x, ast.Subscript) and isinstance(x.ctx, (ast.Store, ast.Del)) and isinstance(x.value, ast.Name) and x.value.id == name:
            return False
        elif isinstance(x, ast.Call) and isinstance(x.func, ast.Attribute) and x.func.attr in ('update', 'pop', 'popitem', 'setdefault', 'clear', '__setitem__') and isinstance(x.func.value, ast.Name) and x.func.value.id == name:
            return False
    return n_store == 1


def _default_parameter_names(prog: Program) -> tuple[set[str], bool]:
    """(the names of the default parameters, whether every entry of the table was read): the field `name` of each
    ParameterTuple(...) of all_parameters_tuple, given by keyword or at the position of the field in the NamedTuple"""
    f = prog.func('default_parameters', 'all_parameters_tuple')
    fields = None
    for c in ast.walk(f.module.tree):
        if isinstance(c, ast.ClassDef) and c.name == 'ParameterTuple':
            fields = [st.target.id for st in c.body if isinstance(st, ast.AnnAssign) and isinstance(st.target, ast.Name)]
    pos = fields.index('name') if fields and 'name' in fields else None
    out, complete, n = set(), True, 0
    for c in ast.walk(f.node):
        if isinstance(c, ast.Call) and (dotted(c.func) or '').endswith('ParameterTuple'):
            n += 1
            v = next((k.value for k in c.keywords if k.arg == 'name'), None)
            if v is None and pos is not None and len(c.args) > pos and not any(isinstance(a, ast.Starred) for a in c.args[:pos + 1]):
                v = c.args[pos]
            try:
                if v is None:
                    raise ValueError
                out.add(const_value(inline_locals(f.node, v)) if not isinstance(v, ast.Constant) else const_value(v))
            except ValueError:
                complete = False  # an entry whose name is not a literal (or comes from a ** / * argument)
    # the table is the literal tuple the function returns; anything else (entries appended, a comprehension) is not read completely
    rets = [r for r in walk_no_nested(f.node) if isinstance(r, ast.Return)]
    if n == 0 or len(rets) != 1 or not isinstance(inline_locals(f.node, rets[0].value) if rets[0].value is not None else None, (ast.Tuple, ast.List)):
        complete = False
    elif any(not (isinstance(e, ast.Call) and (dotted(e.func) or '').endswith('ParameterTuple')) for e in inline_locals(f.node, rets[0].value).elts):
        complete = False
    return out, complete


def _check_param_wrapper(ctx: Ctx) -> None:
    prog = ctx.prog
    dp = prog.func('deprecated', 'deprecated_parameters')
    mod = dp.module
    table = dp.positional_params()[0]
    decorator = next((g for g in mod.all_functions if g.parent is dp), None)
    ctx.need(decorator, 'deprecated_parameters defines a decorator')
    wrapper = next((g for g in mod.all_functions if g.parent is decorator), None)
    ctx.need(wrapper, 'deprecated_parameters defines a wrapper')
    fn_param = decorator.positional_params()[0]
    wa = wrapper.node.args
    problems = []
    dropped: list[str] = []
    # identity: the alias decorator finds the receiver's version of a replacement through new_func.__name__, so a replacement
    # wrapped for its renamed keywords must keep its name
    keeps = any(isinstance(x, ast.Call) and call_name(x) in ('wraps', 'update_wrapper') and any(unparse(a_) == fn_param for a_ in list(x.args) + [k_.value for k_ in x.keywords]) for x in ast.walk(decorator.node)) \
        or any(isinstance(x, ast.Assign) and unparse(x.targets[0]).endswith('.__name__') and unparse(x.value) == f'{fn_param}.__name__' for x in ast.walk(decorator.node))
    by_name = any(isinstance(x, ast.Attribute) and x.attr == '__name__' for x in ast.walk(prog.func('deprecated', 'deprecated').node))
    # the contradiction: the decorator hands back the bare inner function (`return wrapper`) and nothing in it copies the name of
    # the wrapped function; when something else is returned (a helper applied to the wrapper) the name is not followed
    bare = all(isinstance(r_.value, ast.Name) and r_.value.id == wrapper.name for r_ in walk_no_nested(decorator.node) if isinstance(r_, ast.Return)) \
        and not any(isinstance(x, ast.Name) and x.id == wrapper.name and isinstance(x.ctx, ast.Store) for x in ast.walk(decorator.node)) \
        and not any(isinstance(x, ast.Call) and call_name(x) in ('wraps', 'update_wrapper', 'setattr') for x in ast.walk(decorator.node)) \
        and not any(isinstance(d_, ast.AST) for d_ in wrapper.node.decorator_list)
    id_ok = keeps or not by_name
    ctx.add('C20.D5', 'deprecated.deprecated_parameters.wrapper:identity', True if id_ok else False if bare else None, (wrapper.file, wrapper.line),
            'the wrapper keeps the name of the function it wraps (functools.wraps)' if keeps else 'deprecated() does not look the replacement up by name' if id_ok else
            f'the wrapper returned by deprecated_parameters does not take the name of the function it wraps (no functools.wraps({fn_param})): its __name__ is "{wrapper.name}", and deprecated() looks the replacement up on the receiver by new_func.__name__ - '
            'an old method name whose replacement has renamed keywords then runs the base-class version on a subclass that redefines the replacement (and the warning says "use wrapper")', 'identity', positive=bare)
    if not (wa.vararg and wa.kwarg):
        problems.append('wrapper signature is not (*args, **kwargs)')
    else:
        va, kw = wa.vararg.arg, wa.kwarg.arg
        rets = [n for n in walk_no_nested(wrapper.node) if isinstance(n, ast.Return)]
        if len(rets) != 1:
            problems.append('wrapper has not exactly one return')
        else:
            r = rets[0].value
            good = (
                isinstance(r, ast.Call)
                and isinstance(r.func, ast.Name)
                and r.func.id == fn_param
                and len(r.args) == 1
                and isinstance(r.args[0], ast.Starred)
                and unparse(r.args[0].value) == va
                and len(r.keywords) == 1
                and r.keywords[0].arg is None
            )
            if not good:
                problems.append(f'wrapper returns {unparse(r)}')
            else:
                acc = unparse(r.keywords[0].value)
                # acc[new]=value under `name in table` with new = table[name]; acc[name]=value otherwise
                loops = [n for n in wrapper.body if isinstance(n, ast.For)]
                okloop = False
                for lp in loops:
                    if kw not in unparse(lp.iter) or '.items()' not in unparse(lp.iter):
                        continue
                    if not (isinstance(lp.target, ast.Tuple) and len(lp.target.elts) == 2):
                        continue
                    nm, val = unparse(lp.target.elts[0]), unparse(lp.target.elts[1])
                    if len(lp.body) != 1 or not isinstance(lp.body[0], ast.If):
                        problems.append('the keyword loop does more than one membership test')
                        continue
                    iff = lp.body[0]
                    if unparse(iff.test) != f'{nm} in {table}':
                        problems.append(f'keyword test is {unparse(iff.test)}')
                        continue
                    else_ok = len(iff.orelse) == 1 and unparse(iff.orelse[0]) == f'{acc}[{nm}] = {val}'
                    if not else_ok:
                        problems.append('a keyword that is not obsolete is not passed through unchanged')
                    new_var = None
                    for st in iff.body:
                        if isinstance(st, ast.Assign) and unparse(st.value) == f'{table}[{nm}]':
                            new_var = unparse(st.targets[0])
                    stores = [unparse(n) for n in ast.walk(iff) if (isinstance(n, ast.Assign) and unparse(n.targets[0]).startswith(acc + '[')) or
                              (isinstance(n, ast.Expr) and isinstance(n.value, ast.Call) and isinstance(n.value.func, ast.Attribute) and unparse(n.value.func.value) == acc and n.value.func.attr in ('update', '__setitem__', 'setdefault'))]
                    new_txt = f'{table}[{nm}]'
                    if new_var is not None and sum(1 for x in ast.walk(wrapper.node) if isinstance(x, ast.Name) and x.id == new_var and isinstance(x.ctx, (ast.Store, ast.Del))) != 1:
                        new_var = None  # rebound: the local does not name the new keyword everywhere
                    new_names = {new_txt, f'{table}.get({nm})'} | ({new_var} if new_var else set())

                    def is_store(st_) -> bool:
                        """acc[new] = value, or the same written acc.update({new: value}) / acc.__setitem__(new, value)"""
                        if isinstance(st_, ast.Assign) and len(st_.targets) == 1 and isinstance(t_ := st_.targets[0], ast.Subscript) and unparse(t_.value) == acc \
                                and unparse(t_.slice) in new_names and unparse(st_.value) == val:
                            return True
                        c_ = st_.value if isinstance(st_, ast.Expr) else None
                        if isinstance(c_, ast.Call) and isinstance(c_.func, ast.Attribute) and unparse(c_.func.value) == acc and not c_.keywords:
                            if c_.func.attr == 'update' and len(c_.args) == 1 and isinstance(d_ := c_.args[0], ast.Dict) and len(d_.keys) == 1 and d_.keys[0] is not None:
                                return unparse(d_.keys[0]) in new_names and unparse(d_.values[0]) == val
                            if c_.func.attr == '__setitem__' and len(c_.args) == 2:
                                return unparse(c_.args[0]) in new_names and unparse(c_.args[1]) == val
                        return False

                    def reads_only(st_) -> bool:
                        """a statement that cannot change what is forwarded: a warning / log message, pass, a string"""
                        if isinstance(st_, ast.Pass) or (isinstance(st_, ast.Expr) and isinstance(st_.value, ast.Constant)):
                            return True
                        if isinstance(st_, ast.Expr) and isinstance(st_.value, ast.Call):
                            d_ = dotted(st_.value.func) or ''
                            if d_ in ('warnings.warn', 'warn', 'print', 'issue_deprecation_warning') or d_.split('.')[0] in ('logger', 'logging'):
                                return not any(isinstance(x, (ast.NamedExpr, ast.Await, ast.Yield, ast.YieldFrom)) for x in ast.walk(st_))
                        return False

                    if not any(is_store(n) for n in ast.walk(iff)):
                        problems.append('the value of an obsolete keyword is not stored under its new name')
                    if len(stores) != 2:
                        problems.append(f'unexpected stores into {acc}: {stores}')
                    # every value of an obsolete keyword that HAS a new name reaches the store: the body of the membership test is
                    # walked path by path for such a keyword (tests on the new name are decided, the branch of a keyword without a
                    # new name is not taken).  A path that reaches the next iteration (or leaves the loop) without the store drops
                    # the value; it is a contradiction when the only undecided tests on it are tests on the value (some values take
                    # it), otherwise the rule does not know whether the path can be taken.

                    def has_name(t) -> bool | None:
                        if isinstance(t, ast.UnaryOp) and isinstance(t.op, ast.Not):
                            r = has_name(t.operand)
                            return None if r is None else not r
                        if unparse(t) in new_names:
                            return True
                        if isinstance(t, ast.BoolOp):
                            rs = [has_name(x_) for x_ in t.values]
                            if isinstance(t.op, ast.Or):
                                return True if any(r is True for r in rs) else False if all(r is False for r in rs) else None
                            return False if any(r is False for r in rs) else True if all(r is True for r in rs) else None
                        if isinstance(t, ast.Compare) and len(t.ops) == 1:
                            a_, b_ = t.left, t.comparators[0]
                            for x_, y_ in ((a_, b_), (b_, a_)):
                                if unparse(x_) in new_names and isinstance(y_, ast.Constant) and (y_.value is None or (isinstance(t.ops[0], (ast.Eq, ast.NotEq)) and not y_.value)):
                                    # compared with None / with a falsy literal: a new name is neither
                                    return isinstance(t.ops[0], (ast.IsNot, ast.NotEq)) if isinstance(t.ops[0], (ast.Is, ast.IsNot, ast.Eq, ast.NotEq)) else None
                        return None

                    def paths(stmts, stored: bool, sure: bool, why: str):
                        """outcomes (stored, sure, why, falls_through) of the runs of a block for a keyword with a new name"""
                        states = [(stored, sure, why)]
                        done = []
                        for st_ in stmts:
                            if not states:
                                break
                            if is_store(st_):
                                states = [(True, su, w) for _s, su, w in states]
                            elif isinstance(st_, (ast.Continue, ast.Break, ast.Return)):
                                done += [(sd, su, w or f'a `{unparse(st_)}`', False) for sd, su, w in states]
                                states = []
                            elif isinstance(st_, ast.Raise):
                                states = []  # the call fails: nothing is forwarded at all
                            elif isinstance(st_, ast.If):
                                d = has_name(st_.test)
                                on_value = any(isinstance(x, ast.Name) and x.id == val for x in ast.walk(st_.test))
                                nxt = []
                                for sd, su, w in states:
                                    for taken, blk in ((True, st_.body), (False, st_.orelse)):
                                        if d is not None and taken != d:
                                            continue
                                        su2 = su and (d is not None or on_value)
                                        w2 = w or (f'the test `{unparse(st_.test)}`' if d is None and on_value else '')
                                        for sd3, su3, w3, falls in paths(blk, sd, su2, w2):
                                            if falls:
                                                nxt.append((sd3, su3, w3))
                                            else:
                                                done.append((sd3, su3, w3, False))
                                states = nxt
                            elif isinstance(st_, (ast.For, ast.While, ast.Try, ast.With, ast.Match)):
                                states = [(sd, False, w) for sd, su, w in states]  # not followed
                            elif isinstance(st_, ast.Assign) and new_var is not None and len(st_.targets) == 1 and unparse(st_.targets[0]) == new_var and unparse(st_.value) in (new_txt, f'{table}.get({nm})'):
                                pass  # the (only) definition of the local that names the new keyword
                            elif isinstance(st_, ast.Assign) and len(st_.targets) == 1 and isinstance(st_.targets[0], ast.Subscript) and unparse(st_.targets[0].value) == acc and unparse(st_.targets[0].slice) == nm \
                                    and not any(isinstance(x, ast.Name) and x.id == nm and isinstance(x.ctx, (ast.Store, ast.Del)) for x in ast.walk(iff)):
                                pass  # a store under the OLD name (the loop variable itself): not the store under the new one
                            elif not reads_only(st_) and ({acc, val, nm} | ({new_var} if new_var else set())) & {x.id for x in ast.walk(st_) if isinstance(x, ast.Name)}:
                                # a statement on the accumulator, the value or the name that the rule does not understand (another way
                                # of storing, a rebinding): what is forwarded on this path is not known
                                states = [(sd, False, w) for sd, su, w in states]
                        return done + [(sd, su, w, True) for sd, su, w in states]

                    outs = paths(iff.body, False, True, '')
                    lost = [o for o in outs if not o[0]]
                    if any(o[1] for o in lost):
                        w = next(o[2] for o in lost if o[1])
                        dropped.append(f'{w or "a path"} inside the keyword loop lets some values of an obsolete keyword that has a new name skip the store under the new name')
                    elif lost:
                        problems.append('whether every value of an obsolete keyword reaches the store under its new name is not decided')
                    # the branch for a truthy new name must be the one that stores
                    okloop = True
                if not okloop and not problems:
                    problems.append('no loop over the keyword arguments found')
    if dropped:
        ctx.add('C20.D5', 'deprecated.deprecated_parameters.wrapper', False, dp, dropped[0] + ': the old keyword then does not give the same result as the new one (the replacement runs with its default instead)', 'dropped', positive=True)
    else:
        ctx.add('C20.D5', 'deprecated.deprecated_parameters.wrapper', not problems, dp,
                'keywords are renamed by the table and everything else is passed through' if not problems else '; '.join(problems),
                detail='; '.join(problems))


_OBSOLETE = re.compile(r'Use (\w+) instead of (\w+)')


def _obsolete_properties(ctx: Ctx) -> None:
    prog = ctx.prog
    n = 0
    for c in prog.all_classes():
        for key, f in c.methods.items():
            msg = None
            for call in ast.walk(f.node):
                if isinstance(call, ast.Call) and (dotted(call.func) or '').endswith('logger.warning') and call.args:
                    try:
                        txt = const_value(call.args[0])
                    except ValueError:
                        continue
                    m = _OBSOLETE.search(str(txt))
                    if m and 'Obsolete syntax' in str(txt):
                        msg = m
            if msg is None:
                continue
            new, old = msg.group(1), msg.group(2)
            n += 1
            construct = f'{c.name}.{key}'
            setter = key.endswith('.setter')
            body = [s for s in f.body if not (isinstance(s, ast.Expr) and isinstance(s.value, ast.Call) and (dotted(s.value.func) or '').endswith('logger.warning'))]
            name_ok = old == f.name
            # `wrong`: the one statement of the alias names ANOTHER attribute / parameter than the one the warning announces - the
            # contradiction; a body of another form is not followed (no verdict)
            wrong = None

            def self_path(e) -> str | None:
                r_ = e
                while isinstance(r_, ast.Attribute):
                    r_ = r_.value
                return unparse(e) if isinstance(e, ast.Attribute) and isinstance(r_, ast.Name) and r_.id == 'self' else None

            if setter:
                val = f.positional_params()[1] if len(f.positional_params()) > 1 else 'value'
                one = body[0] if len(body) == 1 else None
                is_set = isinstance(one, ast.Expr) and isinstance(one.value, ast.Call) and dotted(one.value.func) == 'self.biogeme_parameters.set_value' and unparse(_kw(one.value, 1, 'value')) == val
                ok = one is not None and (unparse(one) == f'self.{new} = {val}' or (is_set and _kw_const(one.value, 0, 'name') == new))
                if not ok and one is not None:
                    if isinstance(one, ast.Assign) and len(one.targets) == 1 and unparse(one.value) == val and (sp := self_path(one.targets[0])) is not None and sp != f'self.{new}':
                        wrong = f'writes {sp}'
                    elif is_set and isinstance(_kw_const(one.value, 0, 'name'), str):
                        wrong = f'sets the parameter {_kw_const(one.value, 0, "name")!r}'
            else:
                new_getter = c.resolve(new)
                one = body[0] if len(body) == 1 and isinstance(body[0], ast.Return) and body[0].value is not None else None
                is_get = one is not None and isinstance(one.value, ast.Call) and dotted(one.value.func) == 'self.biogeme_parameters.get_value'
                ok = one is not None and (
                    unparse(one.value) == f'self.{new}'
                    or (is_get and _kw_const(one.value, 0, 'name') == new)
                    or (new_getter is not None and [unparse(s) for s in new_getter.body] == [unparse(s) for s in body])
                )
                if not ok and one is not None:
                    ng = new_getter.body if new_getter is not None else []
                    ng_path = self_path(ng[0].value) if len(ng) == 1 and isinstance(ng[0], ast.Return) and ng[0].value is not None else None
                    sp = self_path(one.value)
                    if is_get and isinstance(_kw_const(one.value, 0, 'name'), str):
                        wrong = f'reads the parameter {_kw_const(one.value, 0, "name")!r}'
                    elif sp is not None and sp != f'self.{new}' and (ng_path is not None or c.resolve(sp[5:]) is not None and '.' not in sp[5:]):
                        # another property of the object / another path than the single path the new getter returns
                        wrong = f'returns {sp}' + (f' while {new} returns {ng_path}' if ng_path is not None else '')
            good = bool(ok and name_ok)
            ctx.add('C20.D7', construct, True if good else False if wrong else None, f,
                    f'obsolete property {old} {"writes" if setter else "reads"} {new}' if good
                    else f'obsolete property {f.name} announces "{new} instead of {old}" but ' + (wrong if wrong else f'its body is: {"; ".join(unparse(s) for s in body)[:120]}'),
                    detail='; '.join(unparse(s) for s in body), positive=bool(wrong))
    ctx.floor('C20.D7', 6)


def _kw(call: ast.Call, pos: int, name: str):
    for k in call.keywords:
        if k.arg == name:
            return k.value
    return call.args[pos] if pos < len(call.args) else None


def _kw_const(call: ast.Call, pos: int, name: str):
    v = _kw(call, pos, name)
    try:
        return const_value(v)
    except ValueError:
        return None


# --------------------------------------------------------------------------
# thorough tier: in-memory variants (see sa/selftest.py)

_DEP = 'src/biogeme/deprecated.py'
MUTANTS = [
    dict(name='getLaTeX alias points at get_html (not yet bound in the class body)', rule='C20.D1', file='src/biogeme/results.py',
         old='    @deprecated(new_func=get_latex)\n    def getLaTeX(', new='    @deprecated(new_func=get_html)\n    def getLaTeX('),
    dict(name='wrapper drops the first positional argument', rule='C20.D5', file=_DEP,
         old='return new_func(*args, **kwargs)  # Directly', new='return new_func(*args[1:], **kwargs)  # Directly'),
    dict(name='wrapper swallows the result', rule='C20.D5', file=_DEP,
         old='            return new_func(*args, **kwargs)  # Directly', new='            new_func(*args, **kwargs)  # Directly'),
    dict(name='extra statement in the wrapper', rule='C20.D5', file=_DEP,
         old='            warnings.warn(msg, DeprecationWarning, stacklevel=2)\n            if is_method',
         new='            warnings.warn(msg, DeprecationWarning, stacklevel=2)\n            kwargs.pop("verbose", None)\n            if is_method'),
    dict(name='receiver dispatch removed', rule='C20.D4', file=_DEP,
         old='            if is_method and args and hasattr(type(args[0]), new_func.__name__):\n                return getattr(args[0], new_func.__name__)(*args[1:], **kwargs)\n',
         new=''),
    dict(name='RAISE_EXCEPTION switched on', rule='C20.D5', file=_DEP, old='RAISE_EXCEPTION = False', new='RAISE_EXCEPTION = True'),
    dict(name='obsolete keyword stored under its old name', rule='C20.D5', file=_DEP,
         old='processed_kwargs[new_name] = value', new='processed_kwargs[name] = value'),
    dict(name='numberOfThreads keyword mapped to number_of_draws', rule='C20.D6', file='src/biogeme/biogeme.py',
         old="'numberOfThreads': 'number_of_threads',", new="'numberOfThreads': 'number_of_draws',"),
    dict(name='onlyRobust mapped to a non-parameter', rule='C20.D6', file='src/biogeme/results.py',
         old="    @deprecated_parameters(obsolete_params={'onlyRobust': 'only_robust'})\n    def get_latex(",
         new="    @deprecated_parameters(obsolete_params={'onlyRobust': 'robust_only'})\n    def get_latex("),
    dict(name='staticmethod removed from descriptionOfNativeDraws', rule='C20.D3', file='src/biogeme/database.py',
         old='    @staticmethod\n    @deprecated(new_func=description_of_native_draws)', new='    @deprecated(new_func=description_of_native_draws)'),
    dict(name='logcnl_avail points at cnl', rule='C20.D2', file='src/biogeme/models/cnl.py',
         old='@deprecated(logcnl)\ndef logcnl_avail(', new='@deprecated(cnl)\ndef logcnl_avail('),
    dict(name='nestedMevMu points at lognested_mev_mu', rule='C20.D2', file='src/biogeme/models/nested.py',
         old='@deprecated(nested_mev_mu)', new='@deprecated(lognested_mev_mu)'),
    dict(name='numberOfDraws setter writes number_of_threads', rule='C20.D7', file='src/biogeme/biogeme.py',
         old='        self.number_of_draws = value', new='        self.number_of_threads = value'),
    dict(name='freeBetaNames returns the fixed names', rule='C20.D7', file='src/biogeme/biogeme.py',
         old='instead of freeBetaNames")\n        return self.id_manager.free_betas.names',
         new='instead of freeBetaNames")\n        return self.id_manager.fixed_betas.names'),
    dict(name='getValue alias of Plus captured from the base class', rule='C20.D1', file='src/biogeme/expressions/binary_expressions.py',
         old='    @deprecated(get_value)\n    def getValue(self) -> float:\n        """Kept for backward compatibility"""\n        pass\n\n\nclass Minus',
         new='    @deprecated(get_valu)\n    def getValue(self) -> float:\n        """Kept for backward compatibility"""\n        pass\n\n\nclass Minus'),
]
NEUTRAL = [
    dict(name='message text reworded', file=_DEP,
         old='is deprecated; use {new_func.__name__} instead."', new='is obsolete; please call {new_func.__name__}."'),
    dict(name='stub body replaced by ellipsis', file='src/biogeme/results.py',
         old='    @deprecated(new_func=get_latex)\n    def getLaTeX(self, onlyRobust=True):\n        pass',
         new='    @deprecated(new_func=get_latex)\n    def getLaTeX(self, onlyRobust=True):\n        ...'),
    dict(name='warning category FutureWarning', file=_DEP,
         old='warnings.warn(msg, DeprecationWarning, stacklevel=2)\n            if is_method', new='warnings.warn(msg, FutureWarning, stacklevel=3)\n            if is_method'),
]
