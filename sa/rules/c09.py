"""C09 - panel likelihood is the product over each individual's rows, with shared draws (Python-side plumbing)."""

from __future__ import annotations

import ast
import re

from ..cfg import cfg_of
from ..core import AnalysisError, call_name, named_args, unparse, walk_no_nested
from ..packs import ecc
from ..report import Ctx
from ..pattern import body_is, find, find_expr, has, has_expr


#: obligations whose failure contradicts the property (rule, construct pattern, why); every other failure is 'not recognised'
POSITIVE: list[tuple[str, str, str]] = [
    ('C09.R2', r'^calculator:rebuild$', 'dominance: the individual map is handed to the engine on a path without a rebuild'),
    ('C09.R2', r'^BIOGEME\.\w+:rebuild$', 'dominance: the engine uses the panel map on a path without a rebuild'),
    ('C09.R4', r':record$', 'the record of the trajectory operator is not the one the engine parses'),
]


def run(ctx: Ctx) -> None:
    ctx.positive_table = list(POSITIVE)
    prog = ctx.prog
    ctx.rule('C09.R1', 'Database.panel refuses non-contiguous individuals before the map is built; build_panel_map sorts by the panel column, renumbers the row '
             'index 0..n-1 and stores for each individual [first, last] position of its rows in that renumbered index')
    ctx.rule('C09.R2', 'the map is rebuilt before it is handed to an engine, setPanel(True) accompanies it, and the engine receives individualMap in the map slot (ECC)')
    ctx.rule('C09.R3', 'the sample size of panel data is the number of individuals and draws are generated per individual: both arguments of the generator call '
             'and the shape test in generate_draws use get_sample_size()')
    ctx.rule('C09.R4', 'placement: variables outside PanelLikelihoodTrajectory are refused for the log likelihood on both construction branches; the trajectory '
             'operator absorbs the variables below it, counts itself, requires panel data; MonteCarlo on panel data requires a trajectory inside; simulation '
             'requires exactly one trajectory operator per formula')
    ctx.not_decided += ['the product over the rows of an individual and the reuse of draws across them (engine)']
    D = prog.cls('database', 'Database')
    p = D.methods['panel']
    cfg = cfg_of(p.node)
    bb = find(p.node, """
_G = biogeme.tools.count_number_of_groups(self.data, self.panelColumn)
_S = self.data.sort_values(by=[self.panelColumn])
_N = biogeme.tools.count_number_of_groups(_S, self.panelColumn)
if _G != _N:
    ___
    raise BiogemeError(__MSG)
___
self.build_panel_map()
""")
    ok = bb is not None
    if ok:
        test = [n for n in walk_no_nested(p.node) if isinstance(n, ast.If) and any(isinstance(x, ast.Raise) for x in n.body)]
        build = [n for n in walk_no_nested(p.node) if isinstance(n, ast.Expr) and unparse(n.value) == 'self.build_panel_map()']
        ok = len(test) == 1 and len(build) == 1 and cfg.dominates(cfg.node_of(test[0]), cfg.node_of(build[0]))
    ctx.add('C09.R1', 'Database.panel', ok, p, 'groups of consecutive rows are compared with the number of individuals (after sorting) and a mismatch raises before the map is built' if ok else 'the contiguity test of Database.panel changed or no longer precedes build_panel_map', 'contiguity')
    b = D.methods['build_panel_map']
    body = b.body
    guard = body[0] if body and isinstance(body[0], ast.If) else None
    ok = guard is not None and unparse(guard.test) == 'self.panelColumn is not None'
    steps = [unparse(s) for s in guard.body] if ok else []
    seq = ['self.data = self.data.sort_values(by=self.panelColumn)', 'self.data.index = range(len(self.data.index))']
    ok = ok and steps[:2] == seq
    okm = has(b.node, """
_M = {}
_INDS = self.data[self.panelColumn].unique()
for _I in _INDS:
    _IDX = self.data.loc[self.data[self.panelColumn] == _I].index
    _M[_I] = [min(_IDX), max(_IDX)]
self.individualMap = pd.DataFrame(_M).T
""")
    why = None
    if not ok:
        cb = cfg_of(b.node)
        # (a) the rebuild is skipped in some states of the object
        if guard is not None and isinstance(guard.test, ast.BoolOp) and isinstance(guard.test.op, ast.And) and any(unparse(v) == 'self.panelColumn is not None' for v in guard.test.values):
            extra = [unparse(v) for v in guard.test.values if unparse(v) != 'self.panelColumn is not None']
            why = f'the map is rebuilt only when `{" and ".join(extra)}`: after the rows have changed (remove, a second panel declaration) the engine receives a map that describes another table'
        # (b) the sorted table is kept in a local: self.data, which the engine reads, is not the table the map describes
        loc = [n for n in walk_no_nested(b.node) if isinstance(n, ast.Assign) and isinstance(n.targets[0], ast.Name) and isinstance(n.value, ast.Call) and call_name(n.value) == 'sort_values' and unparse(n.value.func.value) == 'self.data']
        stores = [n for n in walk_no_nested(b.node) if isinstance(n, ast.Assign) and unparse(n.targets[0]) == 'self.data']
        if why is None and loc and not stores:
            why = f'the sorted table is kept in the local {loc[0].targets[0].id} and self.data is left as it was: the map gives row positions of the sorted table while the engine reads self.data'
        # (c) sorting / renumbering does not happen on every path to the construction of the map
        ren = [n for n in walk_no_nested(b.node) if isinstance(n, ast.Assign) and unparse(n.targets[0]) == 'self.data.index']
        build = [n for n in walk_no_nested(b.node) if isinstance(n, ast.Assign) and unparse(n.targets[0]) == 'self.individualMap']
        if why is None and ren and stores and build and guard is not None and unparse(guard.test) == 'self.panelColumn is not None':
            if not all(cb.dominates(cb.node_of(x), cb.node_of(build[0])) for x in ren + stores[:1]):
                why = 'sorting and renumbering of self.data are skipped on some paths to the construction of the map: a table that is in order but whose index has gaps (rows removed) is then mapped by row labels, not by positions'
    ctx.add('C09.R1', 'Database.build_panel_map:order', ok if (ok or why) else None, b, 'sort, then renumber the index, then build the map' if ok else (why or f'the beginning of build_panel_map is not in the expected form: {steps[:2]}'), str(steps[:2]), positive=bool(why))
    byfreq = None
    if not okm:
        vc = [c_ for c_ in walk_no_nested(b.node) if isinstance(c_, ast.Call) and call_name(c_) == 'value_counts' and named_args(c_).get('sort') != 'False' and not any(k.arg == 'sort' and unparse(k.value) == 'False' for k in c_.keywords)]
        cum = any(isinstance(c_, ast.Call) and call_name(c_) == 'cumsum' for c_ in walk_no_nested(b.node))
        if vc and cum:
            byfreq = f'the ranges of rows are cumulated over {unparse(vc[0])[:60]}, which lists the individuals by decreasing number of rows, while the rows are sorted by individual: in an unbalanced panel an individual is mapped to the rows of others'
    ctx.add('C09.R1', 'Database.build_panel_map:rows', okm if (okm or byfreq) else None, b, byfreq if byfreq else 'each individual is mapped to [first, last] position of its rows' if okm else 'the map rows are no longer [min, max] of the positions of the rows of the individual', 'rows', positive=bool(byfreq))
    cg = prog.func('tools.database', 'count_number_of_groups')
    ok = has(cg.node, "df['_bio_groups'] = pd.Series(df[column] != df[column].shift(1)).cumsum()\n_R = len(df['_bio_groups'].unique())\n___\nreturn _R")
    ctx.add('C09.R1', 'count_number_of_groups', ok, cg, 'a group starts wherever the value differs from the previous row' if ok else 'count_number_of_groups changed', 'groups')

    # (the table handed to the engine must be the one the panel map describes: database.data, which build_panel_map re-sorts)
    ecc(ctx, 'C09.R2', methods={'setPanel', 'setDataMap', 'setData'})
    B = prog.cls('biogeme', 'BIOGEME')
    for name in ('__init__', 'simulate', 'calculate_likelihood', 'calculate_likelihood_and_derivatives'):
        f = B.methods[name]
        c = cfg_of(f.node)
        rebuild = [n for n in walk_no_nested(f.node) if isinstance(n, ast.Expr) and unparse(n.value) in ('self._prepare_database_for_formula()', 'self.database.build_panel_map()')]
        uses = [n for n in walk_no_nested(f.node) if isinstance(n, ast.Call) and unparse(n.func) in ('self.theC.setDataMap', 'self.theC.calculateLikelihood', 'self.theC.calculateLikelihoodAndDerivatives') and (unparse(n.func) != 'self.theC.setDataMap' or unparse(n.args[0]) == 'self.database.individualMap')]
        ok = bool(rebuild) and bool(uses) and all(any(c.dominates(c.node_of(r), c.node_of(u)) for r in rebuild) for u in uses)
        ctx.add('C09.R2', f'BIOGEME.{name}:rebuild', ok, f, 'the panel map is rebuilt before the engine uses it' if ok else f'BIOGEME.{name} uses the panel map without rebuilding it first', 'rebuild')
    pd_ = B.methods['_prepare_database_for_formula']
    ok = 'if self.database.is_panel():\n        self.database.build_panel_map()' in unparse(pd_.node)
    ctx.add('C09.R2', 'BIOGEME._prepare_database_for_formula', ok, pd_, 'rebuilds the map for panel data' if ok else '_prepare_database_for_formula changed', 'prep')
    init = B.methods['__init__']
    sp = [n for n in walk_no_nested(init.node) if isinstance(n, ast.If) and unparse(n.test) == 'self.database.is_panel()' and 'self.theC.setPanel(True)' in unparse(n) and 'self.theC.setDataMap(self.database.individualMap)' in unparse(n)]
    ctx.add('C09.R2', 'BIOGEME.__init__:setPanel', len(sp) == 1, init, 'panel data: setPanel(True) together with the map' if sp else 'setPanel(True) no longer accompanies the map', 'setPanel')
    calc = prog.func('expressions.calculator', 'calculate_function_and_derivatives')
    ok = has(calc.node, """
if the_expression.embed_expression('PanelLikelihoodTrajectory'):
    ___
    if database.is_panel():
        database.build_panel_map()
        _C.setDataMap(database.individualMap)
    else:
        ___
        raise BiogemeError(__MSG)
""")
    # positive form of "rebuilt before it is handed over": every hand-over of the map is dominated by an unconditional rebuild
    ccfg = cfg_of(calc.node)
    hand = [c for c in walk_no_nested(calc.node) if isinstance(c, ast.Call) and call_name(c) == 'setDataMap']
    builds = [c for c in walk_no_nested(calc.node) if isinstance(c, ast.Call) and call_name(c) == 'build_panel_map']
    for h in hand:
        fresh = any(ccfg.dominates(ccfg.node_of(bl), ccfg.node_of(h)) and ccfg.node_of(bl) != ccfg.node_of(h) for bl in builds)
        ctx.add('C09.R2', 'calculator:rebuild', fresh, (calc.file, h.lineno), 'the individual map is rebuilt on every path that hands it to the engine' if fresh
                else 'the individual map is handed to the engine on a path that does not rebuild it: after a change of the rows (remove, sampling) the engine multiplies over the rows of a stale map', 'rebuild')
    ctx.add('C09.R2', 'calculator:panel', ok, calc, 'a trajectory operator needs panel data; the map is rebuilt and handed over' if ok else 'panel handling of the calculator changed', 'calc')

    g = D.methods['get_sample_size']
    t = unparse(g.node)
    ok = 'if self.is_panel():\n        return self.individualMap.shape[0]' in t and unparse(g.body[-1]) == 'return self.data.shape[0]'
    ctx.add('C09.R3', 'Database.get_sample_size', ok, g, 'number of individuals for panel data, number of rows otherwise' if ok else 'get_sample_size changed', 'size')
    gd = D.methods['generate_draws']
    calls = [n for n in walk_no_nested(gd.node) if isinstance(n, ast.Call) and unparse(n.func).endswith('.generator')]
    ok = len(calls) == 1 and [unparse(a) for a in calls[0].args] == ['self.get_sample_size()', 'number_of_draws']
    ctx.add('C09.R3', 'Database.generate_draws:generator', ok, gd, 'draws are generated for get_sample_size() units (individuals for panel data)' if ok else f'generator called with {[unparse(a) for a in calls[0].args] if calls else "?"}', 'gen')
    shp = [n for n in walk_no_nested(gd.node) if isinstance(n, ast.If) and '.shape !=' in unparse(n.test)]
    ok = len(shp) == 1 and unparse(shp[0].test).endswith('.shape != (self.get_sample_size(), number_of_draws)') and any(isinstance(x, ast.Raise) for x in shp[0].body)
    ctx.add('C09.R3', 'Database.generate_draws:shape', ok, gd, 'a generator returning another shape than (sample size, draws) is refused' if ok else 'shape test of generate_draws changed', 'shape')
    ip = D.methods['is_panel']
    ok = unparse(ip.body[-1]) == 'return self.panelColumn is not None'
    ctx.add('C09.R3', 'Database.is_panel', ok, ip, 'panel iff a panel column is declared' if ok else 'is_panel changed', 'is_panel')

    from .c12 import run as c12run

    sub = Ctx(prog, ctx.prop, ctx.tier)
    c12run(sub)
    for o in sub.obligations:
        if o.construct in ('BIOGEME.__init__:panel-placement', 'BIOGEME.simulate:panel', 'Expression.check_panel_trajectory', 'Variable.check_panel_trajectory',
                           'PanelLikelihoodTrajectory.check_panel_trajectory', 'MultipleExpression.check_panel_trajectory', 'PanelLikelihoodTrajectory.audit', 'MonteCarlo.audit'):
            ctx.adopt('C09.R4', o)
    PT = prog.find_class('PanelLikelihoodTrajectory', 'expressions')
    f = PT.methods['count_panel_trajectory_expressions']
    ok = body_is(f.body, 'return 1 + self.child.count_panel_trajectory_expressions()') is not None
    ctx.add('C09.R4', 'PanelLikelihoodTrajectory.count', ok, f, 'the operator counts itself plus what is below' if ok else 'count of trajectory operators changed', 'count')
    a = PT.methods['audit']
    ok = has(a.node, "_E, _W = self.child.audit(database)\nif not database.is_panel():\n    _M = __MSG\n    _E.append(_M)\nreturn (_E, _W)")
    ctx.add('C09.R4', 'PanelLikelihoodTrajectory.audit:panel', ok, a, 'the operator is refused on non-panel data' if ok else 'the trajectory operator no longer requires panel data', 'panel')
    mc = prog.find_class('MonteCarlo', 'expressions').methods['audit']
    ok = has(mc.node, "if database.is_panel() and (not self.child.embed_expression('PanelLikelihoodTrajectory')):\n    _M = __MSG\n    _E.append(_M)")
    ctx.add('C09.R4', 'MonteCarlo.audit:panel', ok, mc, 'on panel data the Monte-Carlo argument must contain a trajectory operator (same draws for all rows of an individual)' if ok else 'MonteCarlo.audit no longer requires a trajectory on panel data', 'mc')
    # the engine multiplies over the rows of an individual what the trajectory operator wraps: its record and operand plumbing
    from . import c01

    sub1 = Ctx(prog, ctx.prop, ctx.tier)
    c01.run(sub1)
    got = 0
    for o in sub1.obligations:
        if o.construct in ('PanelLikelihoodTrajectory:record', 'PanelLikelihoodTrajectory.__init__(child)'):
            got += 1
            ctx.adopt('C09.R4', o)
    ctx.need(got == 2, 'record and constructor obligations of PanelLikelihoodTrajectory')
    ctx.floor('C09.R4', 10)
    # a resampled individual map handed to an engine is replaced by the map of the data before the entry point returns
    from .c04 import restore_rule

    sub2 = Ctx(prog, ctx.prop, ctx.tier)
    restore_rule(sub2, 'C09.R2')
    nmap = 0
    for o in sub2.obligations:
        if 'setDataMap' in o.construct:
            nmap += 1
            ctx.adopt('C09.R2', o)
    ctx.need(nmap >= 1, 'an entry point hands a resampled individual map to the engine (bootstrap)')
    ctx.floor('C09.R2', 9)


_D = 'src/biogeme/database.py'
_B = 'src/biogeme/biogeme.py'
MUTANTS = [
    dict(name='map built before the contiguity test', rule='C09.R1', file=_D,
         old='        n_groups = biogeme.tools.count_number_of_groups(self.data, self.panelColumn)', new='        self.build_panel_map()\n        n_groups = biogeme.tools.count_number_of_groups(self.data, self.panelColumn)'),
    dict(name='map built on labels: index not renumbered', rule='C09.R1', file=_D, old='            self.data.index = range(len(self.data.index))\n', new=''),
    dict(name='map rows are [max, min]', rule='C09.R1', file=_D, old='                local_map[i] = [min(indices), max(indices)]', new='                local_map[i] = [max(indices), min(indices)]'),
    dict(name='sample size of a panel counted in rows', rule='C09.R3', file=_D,
         old='        if self.is_panel():\n            return self.individualMap.shape[0]\n            return self.individualMap.shape[0]', new='        if self.is_panel():\n            return self.data.shape[0]'),
    dict(name='draws generated per row', rule='C09.R3', file=_D,
         old='            list_of_draws[i] = the_generator.generator(\n                self.get_sample_size(), number_of_draws\n            )', new='            list_of_draws[i] = the_generator.generator(\n                self.get_number_of_observations(), number_of_draws\n            )'),
    dict(name='likelihood evaluated without rebuilding the map', rule='C09.R2', file=_B,
         old='        self._prepare_database_for_formula()\n        f = self.theC.calculateLikelihood', new='        f = self.theC.calculateLikelihood'),
    dict(name='setPanel forgotten', rule='C09.R2', file=_B, old='            self.theC.setPanel(True)\n', new=''),
    dict(name='engine receives the full map attribute', rule='C09.R2', file=_B,
         old='            self.theC.setPanel(True)\n            self.theC.setDataMap(self.database.individualMap)', new='            self.theC.setPanel(True)\n            self.theC.setDataMap(self.database.data)'),
    dict(name='trajectory operator does not absorb variables', rule='C09.R4', file='src/biogeme/expressions/unary_expressions.py',
         old='    def check_panel_trajectory(self) -> set[str]:\n        """List of variables defined outside of \'PanelLikelihoodTrajectory\'\n\n        :return: List of names of variables\n        :rtype: list(str)\n        """\n        return set()',
         new='    def check_panel_trajectory(self) -> set[str]:\n        return self.child.check_panel_trajectory()'),
    dict(name='simulate accepts several trajectory operators', rule='C09.R4', file=_B, old='                if count != 1:', new='                if count < 1:'),
    dict(name='pre-fix: panel placement only for a single expression', rule='C09.R4', file=_B,
         old='        if self.log_like is not None and self.database.is_panel():\n            check_variables = self.log_like.check_panel_trajectory()',
         new='        if not isinstance(formulas, dict) and self.database.is_panel():\n            check_variables = self.log_like.check_panel_trajectory()'),
]
NEUTRAL = []
