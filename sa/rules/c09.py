"""C09 - panel likelihood is the product over each individual's rows, with shared draws (Python-side plumbing)."""

from __future__ import annotations

import ast
import re

from ..cfg import cfg_of
from ..core import AnalysisError, call_name, inline_locals, named_args, unparse, walk_no_nested
from ..packs import ecc
from ..report import Ctx
from ..pattern import body_is, find, find_expr, has, has_expr


#: obligations whose failure contradicts the property (rule, construct pattern, why); every other failure is 'not recognised'
POSITIVE: list[tuple[str, str, str]] = [
    ('C09.R4', r':record$', 'the record of the trajectory operator is not the one the engine parses'),
]


def _new_names(prog) -> set[str]:
    """the names of the functions and methods (of any class) that the reference tree does not have: what a call by such a name does is in its body"""
    return {f.name for f in prog.all_functions(with_transparent=True) if getattr(f.node, '_verif_new_helper', False)}


def _calls_rebuild(prog) -> set[str]:
    """the names of the functions of the tree that call build_panel_map themselves (Database.panel, ...): a call by such a name may be the rebuild"""
    return {f.name for f in prog.all_functions(with_transparent=True)
            if f.name != 'build_panel_map' and any(isinstance(c, ast.Call) and call_name(c) == 'build_panel_map' for c in walk_no_nested(f.node))}


def _method_rebuilds(prog, name: str, panel_is_column: bool) -> bool:
    """the one method of that name, new with respect to the reference tree, rebuilds the map of its own object on every path to its normal exit when the
    data is panel (`self.build_panel_map()`, under `if self.is_panel()` or not)"""
    from .c04 import Flow, _reached_without

    ms = [f for f in prog.all_functions(with_transparent=True) if f.name == name]
    if len(ms) != 1 or ms[0].cls is None or ms[0].cls.name != 'Database' or not getattr(ms[0].node, '_verif_new_helper', False):
        return False
    fn = ms[0].node
    if any(isinstance(d, (ast.FunctionDef, ast.AsyncFunctionDef, ast.Lambda)) and d is not fn for d in ast.walk(fn)) or any(isinstance(d, (ast.Yield, ast.YieldFrom)) for d in ast.walk(fn)):
        return False
    flow = Flow(fn, panel_is_column)
    pts = [c for c in walk_no_nested(fn) if isinstance(c, ast.Call) and unparse(c.func) == 'self.build_panel_map']
    if not pts:
        return False
    g, _ = flow.under({'self.is_panel()': True})
    points = {x for r in pts for x in flow.at(r)}
    return bool(points) and 1 in g and not _reached_without(g, 1, points)


def _rebuilt_before(fn: ast.FunctionDef, uses: list[ast.Call], db: str, panel_is_column: bool, prepares: tuple[str, ...] = (), new_helpers=(), prog=None) -> tuple[bool | None, str]:
    """(verdict, reason): on panel data every use of the individual map in fn comes after a rebuild of it.  True: every path to every use passes
    `<db>.build_panel_map()` (or one of `prepares`, the methods that do just that; or a new method of the database that does it on all its paths), the
    tests that depend on the data being panel taken as true and the tests that guard the use as holding.  False: some path reaches a use and no rebuild
    stands on it, or the rebuild is skipped when a map exists already, while every call on the path is a function of the reference tree that does not
    rebuild.  None: a rebuild stands under tests (in loops, in new functions or methods, of whatever class) the rule cannot relate to the use."""
    from .c04 import Flow, _reached_without

    flow = Flow(fn, panel_is_column)
    new_names = set(new_helpers) | (_new_names(prog) if prog is not None else set())
    may_rebuild = (_calls_rebuild(prog) if prog is not None else set()) - set(prepares)
    rebuilds, opaque = [], []
    for c in walk_no_nested(fn):
        if not isinstance(c, ast.Call):
            continue
        nm = call_name(c)
        if isinstance(c.func, ast.Attribute):
            recv = unparse(inline_locals(fn, c.func.value))
            if (c.func.attr == 'build_panel_map' and recv == db) or (recv == 'self' and c.func.attr in prepares):
                rebuilds.append(c)
                continue
            if recv == db and nm in new_names and prog is not None and _method_rebuilds(prog, nm, panel_is_column):
                rebuilds.append(c)
                continue
        # a function the reference tree does not have and that was not expanded where it is called may be the rebuild; so may a function of the
        # tree that rebuilds the map of some database itself
        if nm in new_names or nm in may_rebuild or nm == 'build_panel_map':
            opaque.append(c)
    # (a closure or a lambda of the function that can rebuild runs where it is called)
    for d in walk_no_nested(fn):
        if d is not fn and isinstance(d, (ast.FunctionDef, ast.AsyncFunctionDef, ast.Lambda)):
            if any(isinstance(c, ast.Call) and (call_name(c) in new_names or call_name(c) in may_rebuild or call_name(c) in prepares or call_name(c) == 'build_panel_map') for c in ast.walk(d)):
                name_ = getattr(d, 'name', None)
                opaque += [c for c in walk_no_nested(fn) if isinstance(c, ast.Call) and (name_ is None or (isinstance(c.func, ast.Name) and c.func.id == name_))]
    verdict, reason = True, ''
    for u in uses:
        facts = flow.guards(u)
        facts.setdefault(f'{db}.is_panel()', True)
        g, undecided = flow.under(facts)
        at_u = flow.at(u)
        # (what stands among the arguments of the use is evaluated before the use)
        inside = {id(x) for a_ in list(u.args) + [k.value for k in u.keywords] for x in ast.walk(a_)}
        if any(id(r) in inside for r in rebuilds):
            continue
        if any(id(c) in inside for c in opaque):
            verdict, reason = None, 'a function the rule does not follow is called among the arguments of the use'
            continue
        points = {x for r in rebuilds for x in flow.at(r)} - set(at_u)
        if at_u and not any(_reached_without(g, b, points) for b in at_u):
            continue
        holders = flow.holders(rebuilds, undecided)
        # an `if` that reads the map itself to decide whether to rebuild it takes the existence of a map for its being up to date
        stale = {x: i for x, i in holders.items() if isinstance(i, ast.If) and re.search(r'\b(individualMap|fullIndividualMap)\b', unparse(inline_locals(fn, i.test)))}
        maybe = (set(holders) - set(stale)) | ({x for c in opaque for x in flow.at(c)} - set(at_u))
        if not at_u:
            verdict, reason = None, 'the statement of the use is not in the graph of the function'
        elif any(_reached_without(g, b, points | set(holders) | maybe) for b in at_u):
            return False, 'no rebuild of the map stands on some path to the use'
        elif stale and any(_reached_without(g, b, points | maybe) for b in at_u):
            return False, f'the map is rebuilt only when `{unparse(next(iter(stale.values())).test)}`: a map that exists already is taken as up to date'
        else:
            verdict, reason = None, 'a rebuild of the map stands under tests, in a loop or in a new function the rule cannot relate to the use'
    return verdict, reason


def _assigned(fn: ast.AST):
    """(target, value, statement) for every store of the function body: the targets of a tuple assignment are paired with the elements of a tuple value;
    the value is None where it is not one expression (a tuple target with another value, an augmented assignment, a loop or `with` variable)"""
    def pairs(t, v):
        if isinstance(t, (ast.Tuple, ast.List)):
            if isinstance(v, (ast.Tuple, ast.List)) and len(v.elts) == len(t.elts) and not any(isinstance(x, ast.Starred) for x in t.elts + v.elts):
                for t_, v_ in zip(t.elts, v.elts):
                    yield from pairs(t_, v_)
            else:
                for t_ in t.elts:
                    yield from pairs(t_.value if isinstance(t_, ast.Starred) else t_, None)
        else:
            yield t, v
    for n in walk_no_nested(fn):
        if isinstance(n, ast.Assign):
            for t in n.targets:
                for t_, v_ in pairs(t, n.value):
                    yield t_, v_, n
        elif isinstance(n, ast.AnnAssign) and n.value is not None:
            yield n.target, n.value, n
        elif isinstance(n, ast.AugAssign):
            yield n.target, None, n
        elif isinstance(n, (ast.For, ast.AsyncFor)):
            for t_, v_ in pairs(n.target, None):
                yield t_, None, n
        elif isinstance(n, (ast.With, ast.AsyncWith)):
            for it in n.items:
                if it.optional_vars is not None:
                    for t_, v_ in pairs(it.optional_vars, None):
                        yield t_, None, n
        elif isinstance(n, ast.NamedExpr):
            yield n.target, n.value, n


def run(ctx: Ctx) -> None:
    ctx.positive_table = list(POSITIVE)
    prog = ctx.prog
    ctx.rule('C09.R1', 'Database.panel refuses non-contiguous individuals before the map is built; build_panel_map sorts by the panel column, renumbers the row '
             'index 0..n-1 and stores for each individual [first, last] position of its rows in that renumbered index')
    ctx.rule('C09.R2', 'the map is rebuilt before it is handed to an engine, setPanel(True) accompanies it, and the engine receives individualMap in the map slot (ECC)')
    ctx.rule('C09.R3', 'the sample size of panel data is the number of individuals and draws are generated per individual: both arguments of the generator call '
             'and the shape test in generate_draws use get_sample_size()')
    ctx.rule('C09.R4', 'placement: variables outside PanelLikelihoodTrajectory are refused for the log likelihood on both construction branches; the trajectory '
             'operator absorbs the variables below it, counts itself, requires panel data; MonteCarlo on panel data requires a trajectory inside; simulation '
             'requires exactly one trajectory operator per formula')
    ctx.not_decided += ['the product over the rows of an individual and the reuse of draws across them (engine)']
    D = prog.cls('database', 'Database')
    p = D.methods['panel']
    cfg = cfg_of(p.node)
    bb = find(p.node, """
_G = biogeme.tools.count_number_of_groups(self.data, self.panelColumn)
_S = self.data.sort_values(by=[self.panelColumn])
_N = biogeme.tools.count_number_of_groups(_S, self.panelColumn)
if _G != _N:
    ___
    raise BiogemeError(__MSG)
___
self.build_panel_map()
""")
    ok = bb is not None
    if ok:
        test = [n for n in walk_no_nested(p.node) if isinstance(n, ast.If) and any(isinstance(x, ast.Raise) for x in n.body)]
        build = [n for n in walk_no_nested(p.node) if isinstance(n, ast.Expr) and unparse(n.value) == 'self.build_panel_map()']
        ok = len(test) == 1 and len(build) == 1 and cfg.dominates(cfg.node_of(test[0]), cfg.node_of(build[0]))
    ctx.add('C09.R1', 'Database.panel', ok, p, 'groups of consecutive rows are compared with the number of individuals (after sorting) and a mismatch raises before the map is built' if ok else 'the contiguity test of Database.panel changed or no longer precedes build_panel_map', 'contiguity')
    b = D.methods['build_panel_map']
    body = b.body
    guard = body[0] if body and isinstance(body[0], ast.If) else None
    ok = guard is not None and unparse(guard.test) == 'self.panelColumn is not None'
    steps = [unparse(s) for s in guard.body] if ok else []
    seq = ['self.data = self.data.sort_values(by=self.panelColumn)', 'self.data.index = range(len(self.data.index))']
    ok = ok and steps[:2] == seq
    okm = has(b.node, """
_M = {}
_INDS = self.data[self.panelColumn].unique()
for _I in _INDS:
    _IDX = self.data.loc[self.data[self.panelColumn] == _I].index
    _M[_I] = [min(_IDX), max(_IDX)]
self.individualMap = pd.DataFrame(_M).T
""")
    why = None
    if not ok:
        cb = cfg_of(b.node)
        # (a) the rebuild is skipped in some states of the object
        if guard is not None and isinstance(guard.test, ast.BoolOp) and isinstance(guard.test.op, ast.And) and any(unparse(v) == 'self.panelColumn is not None' for v in guard.test.values):
            extra = [unparse(v) for v in guard.test.values if unparse(v) != 'self.panelColumn is not None']
            why = f'the map is rebuilt only when `{" and ".join(extra)}`: after the rows have changed (remove, a second panel declaration) the engine receives a map that describes another table'
        # (b) the sorted table is kept in a local: self.data, which the engine reads, is not the table the map describes
        asg = list(_assigned(b.node))
        loc = [(t, n) for t, v, n in asg if isinstance(t, ast.Name) and isinstance(v, ast.Call) and call_name(v) == 'sort_values' and isinstance(v.func, ast.Attribute) and unparse(v.func.value) == 'self.data']
        # (every store of the attribute counts: also one target of a tuple assignment, an annotated or augmented assignment)
        stores = [n for t, v, n in asg if unparse(t) == 'self.data']
        # (the attribute may also be set by other means: setattr, the dictionary of the instance, a method that is handed the local)
        names = {t.id for t, n in loc}
        other = [c for c in walk_no_nested(b.node) if isinstance(c, ast.Call) and (call_name(c) in ('setattr', '__setattr__', 'update', '__setitem__') or unparse(c.func).startswith('self.')
                 and not unparse(c.func).startswith('self.data.')) and any(isinstance(x, ast.Name) and x.id in names for a_ in list(c.args) + [k.value for k in c.keywords] for x in ast.walk(a_))]
        other += [x for x in ast.walk(b.node) if isinstance(x, ast.Attribute) and x.attr == '__dict__']
        if why is None and loc and not stores and not other:
            why = f'the sorted table is kept in the local {loc[0][0].id} and self.data is left as it was: the map gives row positions of the sorted table while the engine reads self.data'
        # (c) sorting / renumbering does not happen on every path to the construction of the map
        ren = [n for t, v, n in asg if unparse(t) == 'self.data.index']
        build = [n for t, v, n in asg if unparse(t) == 'self.individualMap']
        if why is None and ren and stores and build and guard is not None and unparse(guard.test) == 'self.panelColumn is not None':
            if not all(cb.dominates(cb.node_of(x), cb.node_of(build[0])) for x in ren + stores[:1]):
                why = 'sorting and renumbering of self.data are skipped on some paths to the construction of the map: a table that is in order but whose index has gaps (rows removed) is then mapped by row labels, not by positions'
    ctx.add('C09.R1', 'Database.build_panel_map:order', ok if (ok or why) else None, b, 'sort, then renumber the index, then build the map' if ok else (why or f'the beginning of build_panel_map is not in the expected form: {steps[:2]}'), str(steps[:2]), positive=bool(why))
    byfreq = None
    if not okm:
        # what is cumulated (locals resolved) is the result of value_counts() as it comes, in the order of the counts: nothing puts it back in the
        # order of the individuals (sort=False keeps the order of the rows, sort_index / reindex / a selection by labels gives the order of the labels)
        for cs in [c_ for c_ in walk_no_nested(b.node) if isinstance(c_, ast.Call) and call_name(c_) == 'cumsum' and isinstance(c_.func, ast.Attribute)]:
            what = inline_locals(b.node, cs.func.value)
            inner = [c_ for c_ in ast.walk(what) if isinstance(c_, ast.Call)]
            vc = [c_ for c_ in inner if call_name(c_) == 'value_counts' and not any(k.arg in ('sort', None) for k in c_.keywords) and not c_.args]
            reordered = any(call_name(c_) in ('sort_index', 'reindex', 'sort_values', 'loc', 'reindex_like') for c_ in inner) or any(isinstance(x_, ast.Subscript) for x_ in ast.walk(what) if not any(x_ is y_ for v_ in vc for y_ in ast.walk(v_)))
            if vc and not reordered:
                byfreq = f'the ranges of rows are cumulated over {unparse(vc[0])[:60]}, which lists the individuals by decreasing number of rows, while the rows are sorted by individual: in an unbalanced panel an individual is mapped to the rows of others'
    ctx.add('C09.R1', 'Database.build_panel_map:rows', okm if (okm or byfreq) else None, b, byfreq if byfreq else 'each individual is mapped to [first, last] position of its rows' if okm else 'the map rows are no longer [min, max] of the positions of the rows of the individual', 'rows', positive=bool(byfreq))
    cg = prog.func('tools.database', 'count_number_of_groups')
    ok = has(cg.node, "df['_bio_groups'] = pd.Series(df[column] != df[column].shift(1)).cumsum()\n_R = len(df['_bio_groups'].unique())\n___\nreturn _R")
    ctx.add('C09.R1', 'count_number_of_groups', ok, cg, 'a group starts wherever the value differs from the previous row' if ok else 'count_number_of_groups changed', 'groups')

    # (the table handed to the engine must be the one the panel map describes: database.data, which build_panel_map re-sorts)
    ecc(ctx, 'C09.R2', methods={'setPanel', 'setDataMap', 'setData'})
    B = prog.cls('biogeme', 'BIOGEME')
    ipd = D.methods.get('is_panel')
    panel_is_column = ipd is not None and len(ipd.body) == 1 and unparse(ipd.body[0]) == 'return self.panelColumn is not None'
    engine_uses = ('setDataMap', 'calculateLikelihood', 'calculateLikelihoodAndDerivatives')
    new_methods = {m.name for m in B.methods.values() if getattr(m.node, '_verif_new_helper', False) and not getattr(m.node, '_verif_transparent', False)}
    for name in ('__init__', 'simulate', 'calculate_likelihood', 'calculate_likelihood_and_derivatives'):
        f = B.methods[name]
        # (the engine object and the database may be held in locals)
        uses = [n for n in walk_no_nested(f.node) if isinstance(n, ast.Call) and isinstance(n.func, ast.Attribute) and n.func.attr in engine_uses and unparse(inline_locals(f.node, n.func.value)) == 'self.theC'
                and (n.func.attr != 'setDataMap' or (n.args and unparse(inline_locals(f.node, n.args[0])) == 'self.database.individualMap'))]
        if not uses:
            ctx.add('C09.R2', f'BIOGEME.{name}:rebuild', None, f, f'BIOGEME.{name}: the call that makes the engine read the panel map is not in a form the rule understands', 'rebuild')
            continue
        ok, why = _rebuilt_before(f.node, uses, 'self.database', panel_is_column, prepares=('_prepare_database_for_formula',), new_helpers=new_methods, prog=prog)
        ctx.add('C09.R2', f'BIOGEME.{name}:rebuild', ok, f, 'the panel map is rebuilt before the engine uses it' if ok else (f'BIOGEME.{name} uses the panel map without rebuilding it first: {why}' if ok is False
                else f'BIOGEME.{name}: whether the panel map is rebuilt before the engine uses it is not decided: {why}'), 'rebuild', positive=ok is False)
    pd_ = B.methods.get('_prepare_database_for_formula')
    if pd_ is None:
        # (a private method: the rebuild may have been written where it was called, which the obligations above have examined)
        ctx.add('C09.R2', 'BIOGEME._prepare_database_for_formula', None, B, 'BIOGEME no longer has the method _prepare_database_for_formula', 'prep')
    else:
        ok = 'if self.database.is_panel():\n        self.database.build_panel_map()' in unparse(pd_.node)
        ctx.add('C09.R2', 'BIOGEME._prepare_database_for_formula', ok, pd_, 'rebuilds the map for panel data' if ok else '_prepare_database_for_formula changed', 'prep')
    init = B.methods['__init__']
    sp = [n for n in walk_no_nested(init.node) if isinstance(n, ast.If) and unparse(n.test) == 'self.database.is_panel()' and 'self.theC.setPanel(True)' in unparse(n) and 'self.theC.setDataMap(self.database.individualMap)' in unparse(n)]
    ctx.add('C09.R2', 'BIOGEME.__init__:setPanel', len(sp) == 1, init, 'panel data: setPanel(True) together with the map' if sp else 'setPanel(True) no longer accompanies the map', 'setPanel')
    calc = prog.func('expressions.calculator', 'calculate_function_and_derivatives')
    ok = has(calc.node, """
if the_expression.embed_expression('PanelLikelihoodTrajectory'):
    ___
    if database.is_panel():
        database.build_panel_map()
        _C.setDataMap(database.individualMap)
    else:
        ___
        raise BiogemeError(__MSG)
""")
    # positive form of "rebuilt before it is handed over": on every path to a hand-over of the map stands a rebuild
    hand = [c for c in walk_no_nested(calc.node) if isinstance(c, ast.Call) and call_name(c) == 'setDataMap']
    new_functions = {m.name for m in calc.module.functions.values() if getattr(m.node, '_verif_new_helper', False) and not getattr(m.node, '_verif_transparent', False)}
    for h in hand:
        fresh, why = _rebuilt_before(calc.node, [h], 'database', panel_is_column, new_helpers=new_functions, prog=prog)
        ctx.add('C09.R2', 'calculator:rebuild', fresh, (calc.file, h.lineno), 'the individual map is rebuilt on every path that hands it to the engine' if fresh
                else (f'the individual map is handed to the engine on a path that does not rebuild it ({why}): after a change of the rows (remove, sampling) the engine multiplies over the rows of a stale map' if fresh is False
                      else f'whether the individual map is rebuilt on every path that hands it to the engine is not decided: {why}'), 'rebuild', positive=fresh is False)
    ctx.add('C09.R2', 'calculator:panel', ok, calc, 'a trajectory operator needs panel data; the map is rebuilt and handed over' if ok else 'panel handling of the calculator changed', 'calc')

    g = D.methods['get_sample_size']
    t = unparse(g.node)
    ok = 'if self.is_panel():\n        return self.individualMap.shape[0]' in t and unparse(g.body[-1]) == 'return self.data.shape[0]'
    ctx.add('C09.R3', 'Database.get_sample_size', ok, g, 'number of individuals for panel data, number of rows otherwise' if ok else 'get_sample_size changed', 'size')
    gd = D.methods['generate_draws']
    calls = [n for n in walk_no_nested(gd.node) if isinstance(n, ast.Call) and unparse(n.func).endswith('.generator')]
    ok = len(calls) == 1 and [unparse(a) for a in calls[0].args] == ['self.get_sample_size()', 'number_of_draws']
    ctx.add('C09.R3', 'Database.generate_draws:generator', ok, gd, 'draws are generated for get_sample_size() units (individuals for panel data)' if ok else f'generator called with {[unparse(a) for a in calls[0].args] if calls else "?"}', 'gen')
    shp = [n for n in walk_no_nested(gd.node) if isinstance(n, ast.If) and '.shape !=' in unparse(n.test)]
    ok = len(shp) == 1 and unparse(shp[0].test).endswith('.shape != (self.get_sample_size(), number_of_draws)') and any(isinstance(x, ast.Raise) for x in shp[0].body)
    ctx.add('C09.R3', 'Database.generate_draws:shape', ok, gd, 'a generator returning another shape than (sample size, draws) is refused' if ok else 'shape test of generate_draws changed', 'shape')
    ip = D.methods['is_panel']
    ok = unparse(ip.body[-1]) == 'return self.panelColumn is not None'
    ctx.add('C09.R3', 'Database.is_panel', ok, ip, 'panel iff a panel column is declared' if ok else 'is_panel changed', 'is_panel')

    from .c12 import run as c12run

    sub = Ctx(prog, ctx.prop, ctx.tier)
    c12run(sub)
    for o in sub.obligations:
        if o.construct in ('BIOGEME.__init__:panel-placement', 'BIOGEME.simulate:panel', 'Expression.check_panel_trajectory', 'Variable.check_panel_trajectory',
                           'PanelLikelihoodTrajectory.check_panel_trajectory', 'MultipleExpression.check_panel_trajectory', 'PanelLikelihoodTrajectory.audit', 'MonteCarlo.audit'):
            ctx.adopt('C09.R4', o)
    PT = prog.find_class('PanelLikelihoodTrajectory', 'expressions')
    f = PT.methods['count_panel_trajectory_expressions']
    ok = body_is(f.body, 'return 1 + self.child.count_panel_trajectory_expressions()') is not None
    ctx.add('C09.R4', 'PanelLikelihoodTrajectory.count', ok, f, 'the operator counts itself plus what is below' if ok else 'count of trajectory operators changed', 'count')
    a = PT.methods['audit']
    ok = has(a.node, "_E, _W = self.child.audit(database)\nif not database.is_panel():\n    _M = __MSG\n    _E.append(_M)\nreturn (_E, _W)")
    ctx.add('C09.R4', 'PanelLikelihoodTrajectory.audit:panel', ok, a, 'the operator is refused on non-panel data' if ok else 'the trajectory operator no longer requires panel data', 'panel')
    mc = prog.find_class('MonteCarlo', 'expressions').methods['audit']
    ok = has(mc.node, "if database.is_panel() and (not self.child.embed_expression('PanelLikelihoodTrajectory')):\n    _M = __MSG\n    _E.append(_M)")
    ctx.add('C09.R4', 'MonteCarlo.audit:panel', ok, mc, 'on panel data the Monte-Carlo argument must contain a trajectory operator (same draws for all rows of an individual)' if ok else 'MonteCarlo.audit no longer requires a trajectory on panel data', 'mc')
    # the engine multiplies over the rows of an individual what the trajectory operator wraps: its record and operand plumbing
    from . import c01

    sub1 = Ctx(prog, ctx.prop, ctx.tier)
    c01.run(sub1)
    got = 0
    for o in sub1.obligations:
        if o.construct in ('PanelLikelihoodTrajectory:record', 'PanelLikelihoodTrajectory.__init__(child)'):
            got += 1
            ctx.adopt('C09.R4', o)
    ctx.need(got == 2, 'record and constructor obligations of PanelLikelihoodTrajectory')
    ctx.floor('C09.R4', 10)
    # a resampled individual map handed to an engine is replaced by the map of the data before the entry point returns
    from .c04 import restore_rule

    sub2 = Ctx(prog, ctx.prop, ctx.tier)
    restore_rule(sub2, 'C09.R2')
    nmap = 0
    for o in sub2.obligations:
        if 'setDataMap' in o.construct:
            nmap += 1
            ctx.adopt('C09.R2', o)
    ctx.need(nmap >= 1, 'an entry point hands a resampled individual map to the engine (bootstrap)')
    ctx.floor('C09.R2', 9)


_D = 'src/biogeme/database.py'
_B = 'src/biogeme/biogeme.py'
MUTANTS = [
    dict(name='map built before the contiguity test', rule='C09.R1', file=_D,
         old='        n_groups = biogeme.tools.count_number_of_groups(self.data, self.panelColumn)', new='        self.build_panel_map()\n        n_groups = biogeme.tools.count_number_of_groups(self.data, self.panelColumn)'),
    dict(name='map built on labels: index not renumbered', rule='C09.R1', file=_D, old='            self.data.index = range(len(self.data.index))\n', new=''),
    dict(name='map rows are [max, min]', rule='C09.R1', file=_D, old='                local_map[i] = [min(indices), max(indices)]', new='                local_map[i] = [max(indices), min(indices)]'),
    dict(name='sample size of a panel counted in rows', rule='C09.R3', file=_D,
         old='        if self.is_panel():\n            return self.individualMap.shape[0]\n            return self.individualMap.shape[0]', new='        if self.is_panel():\n            return self.data.shape[0]'),
    dict(name='draws generated per row', rule='C09.R3', file=_D,
         old='            list_of_draws[i] = the_generator.generator(\n                self.get_sample_size(), number_of_draws\n            )', new='            list_of_draws[i] = the_generator.generator(\n                self.get_number_of_observations(), number_of_draws\n            )'),
    dict(name='likelihood evaluated without rebuilding the map', rule='C09.R2', file=_B,
         old='        self._prepare_database_for_formula()\n        f = self.theC.calculateLikelihood', new='        f = self.theC.calculateLikelihood'),
    dict(name='setPanel forgotten', rule='C09.R2', file=_B, old='            self.theC.setPanel(True)\n', new=''),
    dict(name='engine receives the full map attribute', rule='C09.R2', file=_B,
         old='            self.theC.setPanel(True)\n            self.theC.setDataMap(self.database.individualMap)', new='            self.theC.setPanel(True)\n            self.theC.setDataMap(self.database.data)'),
    dict(name='trajectory operator does not absorb variables', rule='C09.R4', file='src/biogeme/expressions/unary_expressions.py',
         old='    def check_panel_trajectory(self) -> set[str]:\n        """List of variables defined outside of \'PanelLikelihoodTrajectory\'\n\n        :return: List of names of variables\n        :rtype: list(str)\n        """\n        return set()',
         new='    def check_panel_trajectory(self) -> set[str]:\n        return self.child.check_panel_trajectory()'),
    dict(name='simulate accepts several trajectory operators', rule='C09.R4', file=_B, old='                if count != 1:', new='                if count < 1:'),
    dict(name='pre-fix: panel placement only for a single expression', rule='C09.R4', file=_B,
         old='        if self.log_like is not None and self.database.is_panel():\n            check_variables = self.log_like.check_panel_trajectory()',
         new='        if not isinstance(formulas, dict) and self.database.is_panel():\n            check_variables = self.log_like.check_panel_trajectory()'),
]
NEUTRAL = []
