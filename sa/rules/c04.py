"""C04 - the sample log likelihood is the weighted sum of per-observation values (Python-side plumbing)."""

from __future__ import annotations

import ast
import re

from ..cfg import cfg_of
from ..core import inline_locals, AnalysisError, call_name, unparse, walk_no_nested
from ..packs import ecc
from ..report import Ctx


def restore_rule(ctx: Ctx, rule: str) -> None:
    """every hand-over of a resample to the engine is followed, on all exits, by a hand-over of the full data"""
    prog = ctx.prog
    B = prog.cls('biogeme', 'BIOGEME')
    n = 0
    for f in B.methods.values():
        calls = [c for c in walk_no_nested(f.node) if isinstance(c, ast.Call) and unparse(c.func) in ('self.theC.setData', 'self.theC.setDataMap')]
        if not calls:
            continue
        cfg = cfg_of(f.node)
        full = {'self.theC.setData': 'self.database.data', 'self.theC.setDataMap': 'self.database.individualMap'}
        resample = [c for c in calls if c.args and unparse(c.args[0]) != full[unparse(c.func)]]
        restores = {k: [c for c in calls if unparse(c.func) == k and c.args and unparse(c.args[0]) == v] for k, v in full.items()}
        ifs = [x for x in walk_no_nested(f.node) if isinstance(x, ast.If)]

        def arm_of(call):
            """(test text, 'body'|'orelse') of the innermost if whose arm directly contains the statement of the call"""
            best = None
            for i in ifs:
                for side, stmts in (('body', i.body), ('orelse', i.orelse)):
                    for st in stmts:
                        if any(sub is call for sub in ast.walk(st)) and not isinstance(st, (ast.If, ast.For, ast.While, ast.Try, ast.With)):
                            best = (unparse(i.test), side, i)
            return best

        for c in resample:
            n += 1
            k = unparse(c.func)
            a = cfg.node_of(c)
            arm = arm_of(c)
            targets = set()
            for r in restores[k]:
                ra = arm_of(r)
                if arm is not None and ra is not None and ra[:2] == arm[:2] and ra[2] is not arm[2]:
                    # same predicate selects the resample and its restoration: the if statement itself is the target
                    targets.add(cfg.node_of(ra[2]))
                elif ra is None or arm is None:
                    targets.add(cfg.node_of(r))
            ok = bool(targets) and cfg.must_pass(a, targets, exits=(1, 2))
            # only a table known to be another one than the full data (a resample, the copy made at construction) makes this an accusation
            known = re.search(r'with_replacement\(|\.fullData\b', unparse(inline_locals(f.node, c.args[0]))) is not None
            ctx.add(rule, f'{f.qualname}:{k.split(".")[-1]}({unparse(c.args[0])})', ok if (ok or known) else None, (f.file, c.lineno),
                    f'the engine receives {unparse(c.args[0])}; every exit of {f.name} passes a {k.split(".")[-1]}({full[k]}) afterwards' if ok
                    else (f'the engine keeps {unparse(c.args[0])} after {f.name} returns: no {k.split(".")[-1]}({full[k]}) on every exit' if known else f'{k.split(".")[-1]}({unparse(c.args[0])}): what is handed to the engine is not in a form the rule understands'),
                    detail=unparse(c), positive=known and not ok)
    if n == 0:
        ctx.note(f'{rule}: no resample is handed to the engine any more')


def _roles(ctx: Ctx) -> None:
    """which formula of the dictionary is the log likelihood and which is the weight"""
    from ..core import const_value
    from ..pattern import find, has

    prog = ctx.prog
    ctx.rule('C04.R5', 'formula roles: when the formulas come in a dictionary the log likelihood is the entry found under one of log_like_valid_names and the weight the entry '
             'found under one of weight_valid_names (all documented spellings, two disjoint lists); get_expression returns the entry of the keyword it found')
    B = prog.cls('biogeme', 'BIOGEME')
    init = B.methods['__init__']
    lists = {}
    for a in walk_no_nested(init.node):
        if isinstance(a, ast.Assign) and unparse(a.targets[0]) in ('self.log_like_valid_names', 'self.weight_valid_names'):
            try:
                lists[unparse(a.targets[0])] = [const_value(e) for e in a.value.elts]
            except Exception:
                lists[unparse(a.targets[0])] = None
    ll, ww = lists.get('self.log_like_valid_names'), lists.get('self.weight_valid_names')
    ok = ll is not None and ww is not None and set(ll) == {'log_like', 'loglike'} and set(ww) == {'weight', 'weights'}
    ctx.add('C04.R5', 'BIOGEME.__init__:names', ok, init, f'log likelihood: {ll}; weight: {ww}' if ok else f'documented spellings changed or overlap: log likelihood {ll}, weight {ww}', f'{ll}/{ww}')
    for attr, names in (('self.log_like', 'self.log_like_valid_names'), ('self.weight', 'self.weight_valid_names')):
        calls = [a for a in walk_no_nested(init.node) if isinstance(a, ast.Assign) and unparse(a.targets[0]) == attr and isinstance(a.value, ast.Call) and call_name(a.value) == 'get_expression']
        okc = len(calls) == 1
        det = ''
        if okc:
            bound = prog.bind_call(init, calls[0].value) or {}
            det = {k: unparse(v) for k, v in bound.items()}
            okc = det == {'dict_of_formulas': 'formulas', 'valid_keywords': names}
        wrong = None
        if not okc and len(calls) == 1 and isinstance(det, dict) and det.get('dict_of_formulas') == 'formulas' and 'valid_keywords' in det:
            wrong = f'{attr} is looked up under {det["valid_keywords"]} only, not under all of {names}: a formula given under another documented spelling is ignored'
        elif not calls:
            single = [a for a in walk_no_nested(init.node) if isinstance(a, ast.Assign) and unparse(a.targets[0]) == attr and re.fullmatch(r'(self\.)?formulas(\.get\(.+\)|\[.+\])', unparse(a.value))]
            if single:
                wrong = f'{attr} = {unparse(single[0].value)}: the entry is looked up under one spelling only, a formula given under another documented spelling ({names}) is ignored'
        ctx.add('C04.R5', f'BIOGEME.__init__:{attr}', okc if (okc or wrong) else None, (init.file, calls[0].lineno if calls else init.line),
                f'{attr} = entry of the dictionary under one of {names}' if okc else (wrong or f'the way {attr} is taken from a dictionary of formulas is not in the expected form (get_expression(formulas, {names}))'), str(det), positive=bool(wrong))
    ge = prog.func('dict_of_formulas', 'get_expression')
    ok = has(ge.node, """
_FOUND = None
for _N in valid_keywords:
    _E = dict_of_formulas.get(_N)
    if _E is not None:
        if _FOUND is not None:
            ___
            raise BiogemeError(__MSG)
        _FOUND = _N
""") and has(ge.node, """
if _FOUND is None:
    ___
    return None
return dict_of_formulas[_FOUND]
""")
    ctx.add('C04.R5', 'get_expression', ok, ge, 'every valid keyword is tried, two spellings at once are refused, the entry of the keyword found is returned' if ok else 'get_expression no longer returns the entry of the (single) valid keyword present', 'get_expression')


#: obligations whose failure contradicts the property (rule, construct pattern, why); every other failure is 'not recognised'
POSITIVE: list[tuple[str, str, str]] = [
    ('C04.R1', r':self\.theC\.\w+\(', 'engine-call contract: an argument handed to the engine has another role than the slot the engine reads'),
    ('C04.R4', r':set(Data|DataMap)\(', 'a resample handed to the engine is not replaced by the full data on some exit'),
]


def run(ctx: Ctx) -> None:
    ctx.positive_table = list(POSITIVE)
    prog = ctx.prog
    ctx.rule('C04.R1', 'engine-call contract (ECC) for pyBiogeme: every argument of every call on the engine object has the role the engine reads in that slot '
             '(signatures, thread count, free/fixed values, literal ids, data, map, draws, missing-data code, sample size)')
    ctx.rule('C04.R2', 'thread resolution: the thread count handed to the engine comes from the number_of_threads property, which maps 0 to the number of CPUs')
    ctx.rule('C04.R3', 'scaling: the scaled likelihood (and every derivative component) is the unscaled engine result divided by database.get_sample_size(); a zero size is refused before the division')
    ctx.rule('C04.R4', 'the engine holds the full data whenever an entry point returns: every resample handed to it is replaced on all exits')
    ctx.not_decided += ['independence of row order, thread count and partition: the loop over rows and threads lives in the engine']
    ecc(ctx, 'C04.R1', only_class='pyBiogeme')
    ctx.floor('C04.R1', 30)

    B = prog.cls('biogeme', 'BIOGEME')
    nt = B.methods.get('number_of_threads')
    ctx.need(nt is not None, 'BIOGEME.number_of_threads')
    from ..pattern import body_is

    bnt = None
    for arg in ("'number_of_threads'", "name='number_of_threads'"):
        bnt = bnt or body_is(nt.body, f"""
_N = self.biogeme_parameters.get_value({arg})
return __ALL if _N == 0 else _N
""")
    if bnt is None or 'property' not in nt.decorators():
        ctx.shape('C04.R2', 'BIOGEME.number_of_threads', False, nt, '', 'property returning the parameter number_of_threads, with a special value for 0')
    else:
        allv = unparse(bnt['__ALL'][1])
        ok = allv in ('mp.cpu_count()', 'multiprocessing.cpu_count()', 'os.cpu_count()')
        ctx.add('C04.R2', 'BIOGEME.number_of_threads', ok, nt, 'number_of_threads is the parameter value, 0 meaning all CPUs' if ok else f'number_of_threads: 0 -> {allv}, which is not the number of CPUs', allv)

    f = B.methods['calculate_likelihood']
    rets = [n for n in walk_no_nested(f.node) if isinstance(n, ast.Return) and n.value is not None]
    eng = [n for n in walk_no_nested(f.node) if isinstance(n, ast.Assign) and isinstance(n.value, ast.Call) and call_name(n.value) == 'calculateLikelihood']
    ctx.need(len(eng) == 1, 'calculate_likelihood calls the engine once')
    fv = unparse(eng[0].targets[0])
    from ..pattern import find_expr

    for r in rets:
        t = unparse(r.value)
        if t == fv:
            ok, what = True, 'unscaled: the engine value'
        else:
            # the matcher looks through temporaries (sample_size = self.database.get_sample_size())
            hit = [b for b in find_expr(r, '_F / float(self.database.get_sample_size())') + find_expr(r, '_F / self.database.get_sample_size()') if b['__node__'] is r.value]
            ok = bool(hit) and hit[0]['_F'] == fv
            what = f'scaled: {t}'
        guard = [i for i in walk_no_nested(f.node) if isinstance(i, ast.If) and r in i.body]
        if t != fv:
            ok = ok and len(guard) == 1 and unparse(guard[0].test) == 'scaled'
        wrong = None
        if not ok and t != fv:
            # a quotient of the engine value by another count of the database
            q = r.value
            if isinstance(q, ast.BinOp) and isinstance(q.op, ast.Div) and unparse(q.left) == fv:
                q = ast.BinOp(left=q.left, op=q.op, right=inline_locals(f.node, q.right))
                den = q.right.args[0] if isinstance(q.right, ast.Call) and call_name(q.right) == 'float' and len(q.right.args) == 1 else q.right
                m_ = re.fullmatch(r'self\.database\.(\w+)\(\)', unparse(den))
                if m_ and m_.group(1) != 'get_sample_size':
                    wrong = f'the scaled value is {fv} / {unparse(den)}: the divisor is not the sample size (get_sample_size(): the number of individuals for panel data)'
        ctx.add('C04.R3', f'BIOGEME.calculate_likelihood:{"scaled" if t != fv else "raw"}', (ok if ok or wrong else None), (f.file, r.lineno), (what if ok else wrong or f'{what}: the return of calculate_likelihood is not in the expected form (engine value, or engine value / sample size under `scaled`)'), t, positive=bool(wrong))
    g = B.methods['calculate_likelihood_and_derivatives']
    divisors = {unparse(n.right) for n in walk_no_nested(g.node) if isinstance(n, ast.BinOp) and isinstance(n.op, ast.Div) and isinstance(n.right, ast.Name)}
    ss = [n for n in walk_no_nested(g.node) if isinstance(n, ast.Assign) and 'self.database.' in unparse(n.value) and isinstance(n.targets[0], ast.Name) and n.targets[0].id in divisors]
    ok = len(ss) == 1 and unparse(ss[0].value) in ('float(self.database.get_sample_size())', 'self.database.get_sample_size()')
    other_count = None
    if not ok and len(ss) == 1:
        m_ = re.fullmatch(r'(?:float\()?self\.database\.(\w+)\(\)\)?', unparse(ss[0].value))
        if m_ and m_.group(1) != 'get_sample_size':
            other_count = f'the value and its derivatives are divided by {unparse(ss[0].value)}: the scaled variant is the sum divided by the sample size (get_sample_size(): the number of individuals for panel data)'
    ctx.add('C04.R3', 'BIOGEME.calculate_likelihood_and_derivatives:divisor', ok if (ok or other_count) else None, g, (f'the divisor is {unparse(ss[0].value)}' if ok else other_count or 'the divisor of the scaled variant is not in the expected form'),
            unparse(ss[0].value) if ss else '', positive=bool(other_count))
    if ok:
        d = ss[0].targets[0].id
        cfg = cfg_of(g.node)
        zero = [n for n in walk_no_nested(g.node) if isinstance(n, ast.If) and unparse(n.test) == f'{d} == 0' and any(isinstance(x, ast.Raise) for x in n.body)]
        divs = [n for n in walk_no_nested(g.node) if isinstance(n, ast.BinOp) and isinstance(n.op, ast.Div) and unparse(n.right) == d]
        okz = len(zero) == 1 and len(divs) == 4 and all(cfg.dominates(cfg.node_of(zero[0]), cfg.node_of(x)) for x in divs)
        ctx.add('C04.R3', 'BIOGEME.calculate_likelihood_and_derivatives:zero-guard', okz, g, 'a zero sample size is refused before the four divisions' if okz else 'zero sample size not refused before dividing', 'zero')
        sc = [n for n in walk_no_nested(g.node) if isinstance(n, ast.If) and unparse(n.test) == 'scaled']
        oks = len(sc) == 1 and all(cfg.dominates(cfg.node_of(sc[0]), cfg.node_of(x)) for x in divs)
        ctx.add('C04.R3', 'BIOGEME.calculate_likelihood_and_derivatives:scaled-only', oks, g, 'division happens only under `scaled`' if oks else 'division is not confined to the scaled branch', 'scaled')
    # sample size / number of observations definitions
    D = prog.cls('database', 'Database')
    f = D.methods['get_sample_size']
    txt = unparse(f.node)
    ok = 'if self.is_panel():\n        return self.individualMap.shape[0]' in txt and unparse(f.body[-1]) == 'return self.data.shape[0]'
    ctx.add('C04.R3', 'Database.get_sample_size', ok, f, 'sample size = number of individuals for panel data, number of rows otherwise' if ok else 'get_sample_size changed', 'sample_size')
    restore_rule(ctx, 'C04.R4')
    ctx.floor('C04.R3', 6)
    _roles(ctx)
    # "... nor on how the rows are split into parts whose values are added": the parts Database.split hands out are a partition
    ctx.rule('C04.R6', 'the folds of Database.split partition the rows (rules of C13.R3): the values of the validation parts add up to the value of the whole sample')
    from . import c13

    sub = Ctx(ctx.prog, ctx.prop, ctx.tier)
    c13.run(sub)
    got = 0
    for o in sub.obligations:
        if o.rule == 'C13.R3' and o.construct.startswith('Database.split'):
            got += 1
            ctx.adopt('C04.R6', o)
    ctx.need(got >= 4, 'the obligations of C13.R3 on Database.split')


_B = 'src/biogeme/biogeme.py'
MUTANTS = [
    dict(name='scaled likelihood divided by the number of observations (seed C04/1)', rule='C04.R3', file=_B,
         old='            return f / float(self.database.get_sample_size())', new='            return f / float(self.database.get_number_of_observations())'),
    dict(name='engine restored with fullData (seed C04/2)', rule='C04', file=_B,
         old='                else:\n                    self.theC.setData(self.database.data)\n', new='                else:\n                    self.theC.setData(self.database.fullData)\n'),
    dict(name='pre-fix: no restore after bootstrapping', rule='C04.R4', file=_B,
         old='            finally:\n                self.save_iterations = saving_iterations\n                # The engine must work again with the full sample\n                if self.database.is_panel():\n                    self.theC.setDataMap(self.database.individualMap)\n                else:\n                    self.theC.setData(self.database.data)\n',
         new='            finally:\n                self.save_iterations = saving_iterations\n'),
    dict(name='setExpressions(loglike, weight, threads)', rule='C04.R1', file=_B,
         old='                    self.loglikeSignatures,\n                    self.number_of_threads,\n                    self.weightSignatures,', new='                    self.loglikeSignatures,\n                    self.weightSignatures,\n                    self.number_of_threads,'),
    dict(name='simulate passes the number of rows as sample size', rule='C04.R1', file=_B,
         old='            self.number_of_threads,\n            self.database.get_sample_size(),\n        )', new='            self.number_of_threads,\n            self.database.get_number_of_observations(),\n        )'),
    dict(name='simulate hands over free and fixed values swapped', rule='C04.R1', file=_B,
         old='            beta_values,\n            self.id_manager.fixed_betas_values,\n            self.database.data,', new='            self.id_manager.fixed_betas_values,\n            beta_values,\n            self.database.data,'),
    dict(name='thread count taken raw from the parameters', rule='C04.R1', file=_B,
         old='                self.theC.setExpressions(self.loglikeSignatures, self.number_of_threads)', new="                self.theC.setExpressions(self.loglikeSignatures, self.biogeme_parameters.get_value('number_of_threads'))"),
    dict(name='number_of_threads no longer maps 0 to the CPU count', rule='C04.R2', file=_B,
         old='        return mp.cpu_count() if nbr_threads == 0 else nbr_threads', new='        return nbr_threads'),
    dict(name='hessian scaled by the square of the sample size', rule='C0', file=_B,
         old='                hessian=np.asarray(h) / sample_size,', new='                hessian=np.asarray(h) / sample_size**2,'),
    dict(name='sample size of a panel counted in rows', rule='C04.R3', file='src/biogeme/database.py',
         old='        if self.is_panel():\n            return self.individualMap.shape[0]\n            return self.individualMap.shape[0]', new='        if self.is_panel():\n            return self.data.shape[0]'),
    dict(name='weight formula handed over as log likelihood', rule='C04.R1', file=_B,
         old='                self.weightSignatures: list[bytes] = self.weight.get_signature()', new='                self.weightSignatures: list[bytes] = self.log_like.get_signature()'),
]
NEUTRAL = [
    dict(name='engine value renamed', file=_B, old='        f = self.theC.calculateLikelihood(x, self.id_manager.fixed_betas_values)\n\n        logger.debug(\n            f"Log likelihood (N = {self.database.get_sample_size()}): {f:10.7g}"\n        )\n\n        if scaled:\n            return f / float(self.database.get_sample_size())\n\n        return f',
         new='        total = self.theC.calculateLikelihood(x, self.id_manager.fixed_betas_values)\n\n        if scaled:\n            return total / float(self.database.get_sample_size())\n\n        return total'),
]
