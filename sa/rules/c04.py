"""C04 - the sample log likelihood is the weighted sum of per-observation values (Python-side plumbing)."""

from __future__ import annotations

import ast
import re

from ..cfg import cfg_of
from ..core import inline_locals, AnalysisError, call_name, unparse, walk_no_nested
from ..packs import ecc
from ..report import Ctx


#: engine method -> attribute of self.database that is the full table / map of the data
_FULL = {'setData': 'self.database.data', 'setDataMap': 'self.database.individualMap'}


def _engine_call(fn: ast.AST, c: ast.AST) -> str | None:
    """'setData' / 'setDataMap' when c hands a table / map to the engine object of the instance (self.theC, also through a local alias)"""
    if isinstance(c, ast.Call) and isinstance(c.func, ast.Attribute) and c.func.attr in _FULL and unparse(inline_locals(fn, c.func.value)) == 'self.theC':
        return c.func.attr
    return None


def _handed(c: ast.Call) -> ast.expr | None:
    if c.args and not isinstance(c.args[0], ast.Starred):
        return c.args[0]
    if not c.args and len(c.keywords) == 1 and c.keywords[0].arg:
        return c.keywords[0].value
    return None


class Flow:
    """one function seen through its tests.  Truth of the `if` tests of one function under the tests that guard a statement: tests are compared after the locals have
    been resolved, through `not`, `and` / `or`, `is None` / `is not None` (either side) and the definition of is_panel()"""

    def __init__(self, fn: ast.AST, panel_is_column: bool):
        self.fn = fn
        self.panel_is_column = panel_is_column
        a = fn.args
        params = {x.arg for x in a.posonlyargs + a.args + a.kwonlyargs}
        stored = {n.id for n in walk_no_nested(fn) if isinstance(n, ast.Name) and not isinstance(n.ctx, ast.Load)}
        #: names whose value cannot change inside the function
        self.fixed = (params - stored) | {'self'}
        self.parent = {}
        for n in walk_no_nested(fn):
            for ch in ast.iter_child_nodes(n):
                self.parent[id(ch)] = n

    def norm(self, e: ast.expr, resolved: bool = False):
        if not resolved:
            e = inline_locals(self.fn, e)
        if isinstance(e, ast.UnaryOp) and isinstance(e.op, ast.Not):
            return ('not', self.norm(e.operand, True))
        if isinstance(e, ast.BoolOp):
            return ('and' if isinstance(e.op, ast.And) else 'or', [self.norm(v, True) for v in e.values])
        if isinstance(e, ast.Compare) and len(e.ops) == 1 and isinstance(e.ops[0], (ast.Is, ast.IsNot)):
            sides = [e.left, e.comparators[0]]
            none = [s for s in sides if isinstance(s, ast.Constant) and s.value is None]
            other = [s for s in sides if not (isinstance(s, ast.Constant) and s.value is None)]
            if len(none) == 1 and len(other) == 1:
                x = other[0]
                base = self.lit(x, f'{unparse(x)} is None')
                if self.panel_is_column and isinstance(x, ast.Attribute) and x.attr == 'panelColumn':
                    base = ('not', self.lit(x, f'{unparse(x.value)}.is_panel()'))
                return base if isinstance(e.ops[0], ast.Is) else ('not', base)
        return self.lit(e, unparse(e))

    def lit(self, e: ast.expr, text: str):
        # a test that reads a local the rule could not resolve (assigned several times, loop variable) may change between two evaluations
        free = {n.id for n in ast.walk(e) if isinstance(n, ast.Name)}
        return ('lit', text if free <= self.fixed else None)

    def assume(self, t, value: bool, facts: dict) -> None:
        if t[0] == 'lit':
            if t[1] is not None:
                facts[t[1]] = value
        elif t[0] == 'not':
            self.assume(t[1], not value, facts)
        elif (t[0] == 'and' and value) or (t[0] == 'or' and not value):
            for x in t[1]:
                self.assume(x, value, facts)

    def value(self, t, facts: dict) -> bool | None:
        if t[0] == 'lit':
            return facts.get(t[1]) if t[1] is not None else None
        if t[0] == 'not':
            v = self.value(t[1], facts)
            return None if v is None else not v
        vs = [self.value(x, facts) for x in t[1]]
        if t[0] == 'and':
            return False if any(v is False for v in vs) else (True if all(v is True for v in vs) else None)
        return True if any(v is True for v in vs) else (False if all(v is False for v in vs) else None)

    def stmt_of(self, n: ast.AST) -> ast.stmt | None:
        while n is not None and not isinstance(n, ast.stmt):
            n = self.parent.get(id(n))
        return n

    def guards(self, n: ast.AST) -> dict:
        """what is known to hold where n stands: the tests of the enclosing `if` statements, with the arm n stands in"""
        facts: dict = {}
        child, p = n, self.parent.get(id(n))
        while p is not None:
            if isinstance(p, ast.If) and child is not p.test:
                self.assume(self.norm(p.test), any(child is s for s in p.body), facts)
            child, p = p, self.parent.get(id(p))
        return facts


    # ---- the graph of the function under what is known to hold

    def _graph(self):
        if getattr(self, 'cfg', None) is None:
            self.cfg = cfg_of(self.fn)
            #: statement -> its nodes (the statements of a `finally` stand once per way of leaving the `try`)
            self.nodes_of: dict[int, list[int]] = {}
            for nn, st in self.cfg.stmt.items():
                if isinstance(st, ast.AST):
                    self.nodes_of.setdefault(id(st), []).append(nn)
            self.ifs = [x for x in walk_no_nested(self.fn) if isinstance(x, ast.If)]
            self.loops = [x for x in walk_no_nested(self.fn) if isinstance(x, (ast.For, ast.While))]
        return self.cfg

    def at(self, x: ast.AST) -> list[int]:
        """the nodes of the statement that evaluates x"""
        self._graph()
        st = self.stmt_of(x)
        return self.nodes_of.get(id(st), []) if st is not None else []

    def under(self, facts: dict):
        """(graph, undecided ifs): the graph of the function on the paths where the tests in `facts` keep their value: an `if` whose test is decided by
        them has one arm only"""
        cfg = self._graph()
        g = cfg.g.copy()
        undecided = []
        for i in self.ifs:
            v = self.value(self.norm(i.test), facts)
            if v is None:
                undecided.append(i)
                continue
            body_first = set(self.nodes_of.get(id(_first_stmt(i.body)), []))
            for h in self.nodes_of.get(id(i), []):
                for s in list(g.successors(h)):
                    if cfg._kind.get(s) != 'except' and (s in body_first) != v:
                        g.remove_edge(h, s)
        return g, undecided

    def holders(self, calls: list[ast.AST], undecided: list[ast.If]) -> dict[int, ast.AST]:
        """node -> statement, for the undecided ifs and the loops that hold one of the calls: the statements through which a path may or may not reach the call"""
        self._graph()
        return {x: i for i in undecided + self.loops if any(c is sub for c in calls for sub in ast.walk(i)) for x in self.nodes_of.get(id(i), [])}


def _first_stmt(body: list[ast.stmt]) -> ast.stmt:
    st = body[0]
    while isinstance(st, ast.Try):
        st = st.body[0]
    return st


def _reached_without(g, b: int, points: set[int]) -> bool:
    """some path from the entry reaches b without passing one of the points"""
    import networkx as nx

    if b in points:
        return False
    h = g.copy()
    h.remove_nodes_from([p_ for p_ in points if p_ != b])
    return 0 in h and b in h and nx.has_path(h, 0, b)


def _leaves(g, a: int, targets: set[int], exits=(1, 2)) -> bool:
    """some path from a (exclusive) reaches an exit without passing a target"""
    import networkx as nx

    h = g.copy()
    h.remove_nodes_from([t for t in targets if t != a])
    for s in list(g.successors(a)):
        if s in targets:
            continue
        for e in exits:
            if s == e or (s in h and e in h and nx.has_path(h, s, e)):
                return True
    return False


def _local_defs(fn: ast.AST) -> dict[str, ast.AST]:
    """name -> definition, for the functions defined inside fn (closures) under a name that nothing else binds"""
    found: dict[str, list] = {}
    for n in walk_no_nested(fn):
        if n is fn:
            continue
        if isinstance(n, (ast.FunctionDef, ast.AsyncFunctionDef, ast.ClassDef)):
            found.setdefault(n.name, []).append(n)
        elif isinstance(n, ast.Name) and not isinstance(n.ctx, ast.Load):
            found.setdefault(n.id, []).append(None)
    return {k: v[0] for k, v in found.items() if len(v) == 1 and isinstance(v[0], ast.FunctionDef)}


def _plain_block(d: ast.FunctionDef) -> bool:
    """the closure takes nothing, gives nothing back and binds no name: calling it as a statement is executing its statements in place"""
    a = d.args
    if a.posonlyargs or a.args or a.kwonlyargs or a.vararg or a.kwarg or d.decorator_list:
        return False
    for n in ast.walk(d):
        if n is d:
            continue
        if isinstance(n, (ast.Return, ast.Yield, ast.YieldFrom, ast.Await, ast.Nonlocal, ast.Global, ast.FunctionDef, ast.AsyncFunctionDef, ast.ClassDef, ast.Lambda, ast.NamedExpr)):
            return False
        if isinstance(n, ast.Name) and not isinstance(n.ctx, ast.Load):
            return False
    return True


def _with_closures_in_place(fn: ast.AST) -> ast.AST:
    """fn itself, or a copy of it in which every statement `g()` that calls a closure of fn (no parameter, no result, no binding) is replaced by the
    statements of g: `def g(): <restore>` before a `try` and `g()` in its `finally` is the restore written in the `finally`"""
    from ..core import fast_copy

    blocks = {k: d for k, d in _local_defs(fn).items() if _plain_block(d)}
    if not blocks:
        return fn

    def is_call(st: ast.stmt) -> str | None:
        if isinstance(st, ast.Expr) and isinstance(st.value, ast.Call) and isinstance(st.value.func, ast.Name) and st.value.func.id in blocks and not st.value.args and not st.value.keywords:
            return st.value.func.id
        return None

    if not any(is_call(n) for n in walk_no_nested(fn) if isinstance(n, ast.stmt)):
        return fn
    new = fast_copy(fn)
    new.__dict__.pop('_verif_cfg', None)

    def rewrite(body: list[ast.stmt], depth: int) -> list[ast.stmt]:
        out = []
        for st in body:
            g = is_call(st)
            if g is not None and depth < 4:
                out.extend(rewrite(fast_copy(strip_body(blocks[g])), depth + 1))
                continue
            if not isinstance(st, (ast.FunctionDef, ast.AsyncFunctionDef, ast.ClassDef)):
                for fld in ('body', 'orelse', 'finalbody'):
                    b = getattr(st, fld, None)
                    if isinstance(b, list) and b and isinstance(b[0], ast.stmt):
                        setattr(st, fld, rewrite(b, depth) or [ast.copy_location(ast.Pass(), st)])
                for h in getattr(st, 'handlers', []) or []:
                    h.body = rewrite(h.body, depth) or [ast.copy_location(ast.Pass(), h)]
                for cs in getattr(st, 'cases', []) or []:
                    cs.body = rewrite(cs.body, depth) or [ast.copy_location(ast.Pass(), cs)]
            out.append(st)
        return out

    def strip_body(d: ast.FunctionDef) -> list[ast.stmt]:
        b = d.body
        if b and isinstance(b[0], ast.Expr) and isinstance(b[0].value, ast.Constant) and isinstance(b[0].value.value, str):
            b = b[1:]
        return b or [ast.copy_location(ast.Pass(), d)]

    new.body = rewrite(new.body, 0)
    return new


def _choose(tests: 'Flow', e: ast.expr, facts: dict) -> ast.expr:
    """e (locals resolved) in which a conditional expression whose test is decided by what holds where it is used is the arm that is taken"""

    class Pick(ast.NodeTransformer):
        def visit_IfExp(self, node):
            v = tests.value(tests.norm(node.test, True), facts)
            if v is None:
                return self.generic_visit(node)
            return self.visit(node.body if v else node.orelse)

    return Pick().visit(e)


def _handed_value(tests: 'Flow', fn: ast.AST, c: ast.Call) -> ast.expr | None:
    """what the call hands over, locals resolved.  Of `a if t else b` the arm that the tests around the call select; of a local assigned in the two arms of
    a test (`if t: x = a` / `else: x = b`) the one assignment that reaches the call on the paths where the tests around the call keep their value"""
    import networkx as nx

    a = _handed(c)
    if a is None:
        return None
    facts = tests.guards(c)
    r = inline_locals(fn, a)
    if isinstance(r, ast.Name) and r.id not in tests.fixed:
        binds = [n for n in walk_no_nested(fn) if isinstance(n, ast.Name) and n.id == r.id and not isinstance(n.ctx, ast.Load)]
        defs = [tests.parent.get(id(n)) for n in binds]
        if defs and all(isinstance(d, ast.Assign) and len(d.targets) == 1 and d.targets[0] is n for d, n in zip(defs, binds)) and len(defs) <= 6:
            g, _ = tests.under(facts)
            uses = [u for u in tests.at(c) if u in g]
            alive = (nx.descendants(g, 0) | {0}) if 0 in g else set()
            nodes = {id(d): [x for x in tests.nodes_of.get(id(d), []) if x in alive] for d in defs}
            live = []
            for d in defs:
                h = g.copy()
                h.remove_nodes_from([x for o in defs if o is not d for x in tests.nodes_of.get(id(o), [])])
                if any(x in h and u in h and nx.has_path(h, x, u) for x in nodes[id(d)] for u in uses):
                    live.append(d)
            if len(live) == 1:
                r = inline_locals(fn, live[0].value)
    return _choose(tests, r, facts)


def restore_rule(ctx: Ctx, rule: str) -> None:
    """every hand-over of a resample to the engine is followed, on all exits, by a hand-over of the full data"""
    prog = ctx.prog
    B = prog.cls('biogeme', 'BIOGEME')
    ip = prog.cls('database', 'Database').methods.get('is_panel')
    panel_is_column = ip is not None and len(ip.body) == 1 and unparse(ip.body[0]) == 'return self.panelColumn is not None'
    #: methods that talk to the engine about its data themselves: calling one of them may be the restoration
    hands_over = {name for name, m in B.methods.items() if any(_engine_call(m.node, c) for c in walk_no_nested(m.node))}
    n = 0
    for f in B.methods.values():
        if getattr(f.node, '_verif_transparent', False):
            continue  # a new helper all of whose calls were expanded in place: examined where it is called
        fnode = _with_closures_in_place(f.node)  # (a closure called as a statement is its statements)
        calls = [(c, _engine_call(fnode, c)) for c in walk_no_nested(fnode)]
        calls = [(c, k) for c, k in calls if k]
        if not calls:
            continue
        tests = Flow(fnode, panel_is_column)
        # (what is handed over, locals resolved; of `a if t else b` the arm that the tests around the call select)
        args = {id(c): _handed_value(tests, fnode, c) for c, _ in calls}
        text = {id(c): (unparse(args[id(c)]) if args[id(c)] is not None else '?') for c, _ in calls}
        resample = [(c, k) for c, k in calls if text[id(c)] != _FULL[k]]
        if getattr(f.node, '_verif_new_helper', False):
            # a method the reference tree does not have and whose calls could not be expanded: what follows the hand-over is in its callers
            for c, k in resample:
                n += 1
                ctx.add(rule, f'{f.qualname}:{k}({text[id(c)]})', None, (f.file, c.lineno),
                        f'{k}({text[id(c)]}) stands in the new method {f.name}, which the rule cannot place in the entry points that call it: whether {k}({_FULL[k]}) follows on every exit is not decided',
                        detail=unparse(c))
            continue
        if not resample:
            continue
        # something else than a direct call on the engine may hand the data over: the engine object or the instance given away, a method that
        # is new or that hands data over itself, a closure or a lambda of this function that does one of these (its statements run where it is
        # called, which the rule does not follow unless the call is a plain statement, replaced above by the statements)
        elsewhere = []
        inner_names = {u.id for u in walk_no_nested(fnode) if isinstance(u, ast.Name) and isinstance(u.ctx, ast.Load)}
        for x in walk_no_nested(fnode):
            if x is not fnode and isinstance(x, (ast.FunctionDef, ast.AsyncFunctionDef, ast.Lambda, ast.ClassDef)):
                if isinstance(x, ast.Lambda) or x.name in inner_names:
                    reach = [y for y in ast.walk(x) if (isinstance(y, ast.Attribute) and unparse(y) == 'self.theC')
                             or (isinstance(y, ast.Call) and isinstance(y.func, ast.Attribute) and unparse(y.func.value) == 'self' and y.func.attr != f.name
                                 and (B.resolve(y.func.attr) is None or getattr(B.resolve(y.func.attr).node, '_verif_new_helper', False) or y.func.attr in hands_over))
                             or (isinstance(y, ast.Call) and any(isinstance(a_, ast.Name) and a_.id == 'self' for a_ in list(y.args) + [kw.value for kw in y.keywords]))]
                    if reach:
                        elsewhere.append(f'{"a lambda" if isinstance(x, ast.Lambda) else "the local function " + x.name + "()"} (line {x.lineno}) can talk to the engine where it is called')
                continue
            if isinstance(x, ast.Attribute) and isinstance(x.ctx, ast.Load) and unparse(x) == 'self.theC':
                p = tests.parent.get(id(x))
                pp = tests.parent.get(id(p)) if p is not None else None
                direct = isinstance(p, ast.Attribute) and isinstance(pp, ast.Call) and pp.func is p
                alias = isinstance(p, ast.Assign) and p.value is x and len(p.targets) == 1 and isinstance(p.targets[0], ast.Name)
                if alias:
                    nm = p.targets[0].id
                    uses = [u for u in walk_no_nested(fnode) if isinstance(u, ast.Name) and u.id == nm and u is not p.targets[0]]
                    alias = all(isinstance(u.ctx, ast.Load) and isinstance(tests.parent.get(id(u)), ast.Attribute) and isinstance(tests.parent.get(id(tests.parent.get(id(u)))), ast.Call)
                                and tests.parent.get(id(tests.parent.get(id(u)))).func is tests.parent.get(id(u)) for u in uses)
                if not (direct or alias):
                    elsewhere.append(f'the engine object is passed on (line {x.lineno})')
            if isinstance(x, ast.Call):
                fn_ = x.func
                if isinstance(fn_, ast.Attribute) and isinstance(fn_.value, ast.Name) and fn_.value.id == 'self' and fn_.attr != f.name:
                    m = B.resolve(fn_.attr)
                    if m is not None and (getattr(m.node, '_verif_new_helper', False) or fn_.attr in hands_over):
                        elsewhere.append(f'self.{fn_.attr}() talks to the engine itself')
                elif isinstance(fn_, ast.Name) and any(isinstance(a_, ast.Name) and a_.id == 'self' for a_ in list(x.args) + [kw.value for kw in x.keywords]):
                    m = f.module.functions.get(fn_.id)
                    if m is not None and getattr(m.node, '_verif_new_helper', False):
                        elsewhere.append(f'{fn_.id}(self) is a new function that receives the instance')
        for c, k in resample:
            n += 1
            full = f'{k}({_FULL[k]})'
            shown = text[id(c)]
            starts = tests.at(c)
            # the graph of the function on the paths where the tests that select this hand-over keep their value
            g, undecided = tests.under(tests.guards(c))
            restores = [r for r, kr in calls if kr == k and text[id(r)] == _FULL[k]]
            targets = {x for r in restores for x in tests.at(r)}
            ok = bool(targets) and bool(starts) and not any(_leaves(g, a, targets) for a in starts)
            # only a table known to be another one than the full data (a resample, the copy made at construction) makes this an accusation
            known = re.search(r'with_replacement\(|\.fullData\b', shown) is not None
            wrong = False
            if not ok and known and starts and not elsewhere:
                # no restoration at all on some exit, even if every test the rule cannot relate to the hand-over selects the arm with the
                # restoration and every loop that holds one is entered
                maybe = set(tests.holders(restores, undecided))
                wrong = any(_leaves(g, a, targets | maybe) for a in starts)
            if ok:
                msg = f'the engine receives {shown}; every exit of {f.name} passes a {full} afterwards'
            elif wrong:
                msg = f'the engine keeps {shown} after {f.name} returns: no {full} on every exit'
            elif not known:
                msg = f'{k}({shown}): what is handed to the engine is not in a form the rule understands'
            elif elsewhere:
                msg = f'the engine receives {shown}; a {full} on every exit of {f.name} is not established ({elsewhere[0]})'
            else:
                msg = f'the engine receives {shown}; a {full} follows under tests the rule cannot relate to the tests that select the hand-over: not decided'
            ctx.add(rule, f'{f.qualname}:{k}({shown})', True if ok else (False if wrong else None), (f.file, c.lineno), msg, detail=unparse(c), positive=wrong)
    if n == 0:
        ctx.note(f'{rule}: no resample is handed to the engine any more')


_MUTATORS = {'append', 'extend', 'insert', 'remove', 'pop', 'clear', 'sort', 'reverse', 'add', 'discard', 'update', '__setitem__', '__delitem__', '__iadd__'}


def _stores(tree: ast.AST, text: str) -> list[ast.expr | None]:
    """the values stored under the name / attribute chain `text` in tree (None for a store whose value is not one expression: a tuple target, a loop
    variable, an augmented assignment, ...)"""
    out: list[ast.expr | None] = []
    for a in ast.walk(tree):
        if isinstance(a, ast.Assign) and len(a.targets) == 1 and unparse(a.targets[0]) == text:
            out.append(a.value)
        elif isinstance(a, ast.AnnAssign) and unparse(a.target) == text:
            if a.value is not None:
                out.append(a.value)
        elif isinstance(a, (ast.Name, ast.Attribute)) and not isinstance(a.ctx, ast.Load) and unparse(a) == text:
            out.append(None)
    # (the targets of the plain assignments above are counted twice: once with their value, once as a bare store)
    plain = sum(1 for v in out if v is not None)
    bare = sum(1 for v in out if v is None)
    return [v for v in out if v is not None] + [None] * (bare - plain)


def _mutated(tree: ast.AST, text: str) -> bool:
    """some statement of tree changes the object named `text` in place (a mutating method, a store or deletion of an item)"""
    for a in ast.walk(tree):
        if isinstance(a, ast.Attribute) and a.attr in _MUTATORS and unparse(a.value) == text:
            return True
        if isinstance(a, ast.Subscript) and not isinstance(a.ctx, ast.Load) and unparse(a.value) == text:
            return True
    return False


def _spellings(prog, module, fn: ast.AST | None, expr: ast.expr | None, depth: int = 0) -> list[str] | None:
    """the strings of a list of names, written out: a literal list / tuple / set of strings (an element may be an attribute of the instance set once, in fn, to a
    string), through single-definition locals, a module constant assigned once and never changed in place, an attribute of the instance stored once in fn,
    .copy(), list(), tuple(), sorted(), set() and + of two such lists.  None when the elements are not established."""
    if expr is None or depth > 6:
        return None
    e = inline_locals(fn, expr) if fn is not None else expr
    if isinstance(e, (ast.List, ast.Tuple, ast.Set)):
        out = []
        for x in e.elts:
            if isinstance(x, ast.Attribute) and isinstance(x.value, ast.Name) and x.value.id == 'self' and fn is not None:
                st = _stores(fn, unparse(x))
                x = inline_locals(fn, st[0]) if len(st) == 1 and st[0] is not None else x
            if not (isinstance(x, ast.Constant) and isinstance(x.value, str)):
                return None
            out.append(x.value)
        return out
    if isinstance(e, ast.Call) and not e.keywords and not any(isinstance(a, ast.Starred) for a in e.args):
        if isinstance(e.func, ast.Name) and e.func.id in ('list', 'tuple', 'sorted', 'set', 'frozenset') and len(e.args) == 1:
            if fn is not None and _stores(fn, e.func.id):
                return None
            return _spellings(prog, module, fn, e.args[0], depth + 1)
        if isinstance(e.func, ast.Attribute) and e.func.attr == 'copy' and not e.args:
            return _spellings(prog, module, fn, e.func.value, depth + 1)
        return None
    if isinstance(e, ast.BinOp) and isinstance(e.op, ast.Add):
        l, r = _spellings(prog, module, fn, e.left, depth + 1), _spellings(prog, module, fn, e.right, depth + 1)
        return None if l is None or r is None else l + r
    if isinstance(e, ast.Attribute) and isinstance(e.value, ast.Name) and e.value.id == 'self' and fn is not None:
        st = _stores(fn, unparse(e))
        if len(st) != 1 or st[0] is None or _mutated(fn, unparse(e)):
            return None
        return _spellings(prog, module, fn, st[0], depth + 1)
    if isinstance(e, ast.Name):
        if fn is not None:
            a = fn.args
            if _stores(fn, e.id) or e.id in {x.arg for x in a.posonlyargs + a.args + a.kwonlyargs + [y for y in (a.vararg, a.kwarg) if y]}:
                return None  # (a local the normal form does not resolve, a parameter)
        r = prog.resolve_name(module, e.id)
        if not r or r[0] != 'value':
            return None
        m = r[1]
        # (the name under which the constant is imported may differ from the name it has where it is defined)
        own = [k for k, v in m.assigns.items() if v is r[2]]
        if len(own) != 1:
            return None
        st = _stores(m.tree, own[0])
        if len(st) != 1 or st[0] is not r[2] or _mutated(m.tree, own[0]):
            return None
        return _spellings(prog, m, None, r[2], depth + 1)
    return None


def _roles(ctx: Ctx) -> None:
    """which formula of the dictionary is the log likelihood and which is the weight"""
    from ..core import const_value
    from ..pattern import find, has

    prog = ctx.prog
    ctx.rule('C04.R5', 'formula roles: when the formulas come in a dictionary the log likelihood is the entry found under one of log_like_valid_names and the weight the entry '
             'found under one of weight_valid_names (all documented spellings, two disjoint lists); get_expression returns the entry of the keyword it found')
    B = prog.cls('biogeme', 'BIOGEME')
    init = B.methods['__init__']
    lists = {}
    for a in walk_no_nested(init.node):
        for t_ in (a.targets if isinstance(a, ast.Assign) else [a.target] if isinstance(a, ast.AnnAssign) and a.value is not None else []):
            if unparse(t_) in ('self.log_like_valid_names', 'self.weight_valid_names'):
                # (the list may be written out in a local or a module constant first, and copied)
                lists[unparse(t_)] = _spellings(prog, init.module, init.node, t_)
    ll, ww = lists.get('self.log_like_valid_names'), lists.get('self.weight_valid_names')
    ok = ll is not None and ww is not None and set(ll) == {'log_like', 'loglike'} and set(ww) == {'weight', 'weights'}
    ctx.add('C04.R5', 'BIOGEME.__init__:names', ok, init, f'log likelihood: {ll}; weight: {ww}' if ok else f'documented spellings changed or overlap: log likelihood {ll}, weight {ww}', f'{ll}/{ww}')
    for attr, names in (('self.log_like', 'self.log_like_valid_names'), ('self.weight', 'self.weight_valid_names')):
        calls = [a for a in walk_no_nested(init.node) if isinstance(a, ast.Assign) and unparse(a.targets[0]) == attr and isinstance(a.value, ast.Call) and call_name(a.value) == 'get_expression']
        okc = len(calls) == 1
        det = ''
        if okc:
            bound = prog.bind_call(init, calls[0].value) or {}
            # (a list of names kept in a local is that list)
            det = {k: unparse(inline_locals(init.node, v)) for k, v in bound.items()}
            okc = det == {'dict_of_formulas': 'formulas', 'valid_keywords': names}
            # (the list stored in the attribute and handed over through the local it was stored from is that list: one object)
            stored = [a_ for a_ in walk_no_nested(init.node) if isinstance(a_, (ast.Assign, ast.AnnAssign)) and getattr(a_, 'value', None) is not None
                      and any(unparse(t_) == names for t_ in (a_.targets if isinstance(a_, ast.Assign) else [a_.target]))]
            kw = bound.get('valid_keywords')
            same_object = (len(stored) == 1 and isinstance(stored[0].value, ast.Name) and isinstance(kw, ast.Name) and kw.id == stored[0].value.id
                           and sum(1 for x_ in walk_no_nested(init.node) if isinstance(x_, ast.Name) and x_.id == kw.id and not isinstance(x_.ctx, ast.Load)) == 1)
            if not okc and same_object and det.get('dict_of_formulas') == 'formulas' and set(det) == {'dict_of_formulas', 'valid_keywords'}:
                okc = True
        wrong = None
        # what the list handed over and the list of the attribute hold, element by element (through locals, module constants, copies)
        kw_ = bound.get('valid_keywords') if len(calls) == 1 else None
        handed = _spellings(prog, init.module, init.node, kw_) if kw_ is not None else None
        held = _spellings(prog, init.module, init.node, ast.parse(names, mode='eval').body)
        plain = len(calls) == 1 and isinstance(det, dict) and det.get('dict_of_formulas') == 'formulas' and set(det) == {'dict_of_formulas', 'valid_keywords'}
        if not okc and plain and handed is not None and held is not None and set(handed) == set(held):
            # (the same spellings under another name: get_expression tries every one of them and refuses two at once, their order does not count)
            okc = True
        if not okc and plain and handed is not None and held is not None and set(held) - set(handed):
            # a documented spelling is not among the keywords handed over
            wrong = (f'{attr} is looked up under {handed} only ({det["valid_keywords"]}), not under all of {names} = {held}: a formula given under '
                     f'{sorted(set(held) - set(handed))} is ignored')
        elif not calls:
            single = [a for a in walk_no_nested(init.node) if isinstance(a, ast.Assign) and unparse(a.targets[0]) == attr and re.fullmatch(r'(self\.)?formulas(\.get\(.+\)|\[.+\])', unparse(a.value))]
            # (a key that is the variable of a loop over the spellings is every spelling in turn)
            single = [a for a in single if {x.id for k_ in ([a.value.slice] if isinstance(a.value, ast.Subscript) else a.value.args[:1]) for x in ast.walk(inline_locals(init.node, k_)) if isinstance(x, ast.Name)} <= {'self'}]
            if single:
                wrong = f'{attr} = {unparse(single[0].value)}: the entry is looked up under one spelling only, a formula given under another documented spelling ({names}) is ignored'
        ctx.add('C04.R5', f'BIOGEME.__init__:{attr}', okc if (okc or wrong) else None, (init.file, calls[0].lineno if calls else init.line),
                f'{attr} = entry of the dictionary under one of {names}' if okc else (wrong or f'the way {attr} is taken from a dictionary of formulas is not in the expected form (get_expression(formulas, {names}))'), str(det), positive=bool(wrong))
    ge = prog.func('dict_of_formulas', 'get_expression')
    ok = has(ge.node, """
_FOUND = None
for _N in valid_keywords:
    _E = dict_of_formulas.get(_N)
    if _E is not None:
        if _FOUND is not None:
            ___
            raise BiogemeError(__MSG)
        _FOUND = _N
""") and has(ge.node, """
if _FOUND is None:
    ___
    return None
return dict_of_formulas[_FOUND]
""")
    ctx.add('C04.R5', 'get_expression', ok, ge, 'every valid keyword is tried, two spellings at once are refused, the entry of the keyword found is returned' if ok else 'get_expression no longer returns the entry of the (single) valid keyword present', 'get_expression')


#: obligations whose failure contradicts the property (rule, construct pattern, why); every other failure is 'not recognised'
POSITIVE: list[tuple[str, str, str]] = [
    ('C04.R1', r':self\.theC\.\w+\(', 'engine-call contract: an argument handed to the engine has another role than the slot the engine reads'),
]


def run(ctx: Ctx) -> None:
    ctx.positive_table = list(POSITIVE)
    prog = ctx.prog
    ctx.rule('C04.R1', 'engine-call contract (ECC) for pyBiogeme: every argument of every call on the engine object has the role the engine reads in that slot '
             '(signatures, thread count, free/fixed values, literal ids, data, map, draws, missing-data code, sample size)')
    ctx.rule('C04.R2', 'thread resolution: the thread count handed to the engine comes from the number_of_threads property, which maps 0 to the number of CPUs')
    ctx.rule('C04.R3', 'scaling: the scaled likelihood (and every derivative component) is the unscaled engine result divided by database.get_sample_size(); a zero size is refused before the division')
    ctx.rule('C04.R4', 'the engine holds the full data whenever an entry point returns: every resample handed to it is replaced on all exits')
    ctx.not_decided += ['independence of row order, thread count and partition: the loop over rows and threads lives in the engine']
    ecc(ctx, 'C04.R1', only_class='pyBiogeme')
    ctx.floor('C04.R1', 30)

    B = prog.cls('biogeme', 'BIOGEME')
    nt = B.methods.get('number_of_threads')
    ctx.need(nt is not None, 'BIOGEME.number_of_threads')
    from ..pattern import body_is

    bnt = None
    for arg in ("'number_of_threads'", "name='number_of_threads'"):
        bnt = bnt or body_is(nt.body, f"""
_N = self.biogeme_parameters.get_value({arg})
return __ALL if _N == 0 else _N
""")
    if bnt is None or 'property' not in nt.decorators():
        ctx.shape('C04.R2', 'BIOGEME.number_of_threads', False, nt, '', 'property returning the parameter number_of_threads, with a special value for 0')
    else:
        allv = unparse(bnt['__ALL'][1])
        ok = allv in ('mp.cpu_count()', 'multiprocessing.cpu_count()', 'os.cpu_count()')
        ctx.add('C04.R2', 'BIOGEME.number_of_threads', ok, nt, 'number_of_threads is the parameter value, 0 meaning all CPUs' if ok else f'number_of_threads: 0 -> {allv}, which is not the number of CPUs', allv)

    f = B.methods['calculate_likelihood']
    rets = [n for n in walk_no_nested(f.node) if isinstance(n, ast.Return) and n.value is not None]
    eng = [n for n in walk_no_nested(f.node) if isinstance(n, ast.Assign) and isinstance(n.value, ast.Call) and call_name(n.value) == 'calculateLikelihood']
    ctx.need(len(eng) == 1, 'calculate_likelihood calls the engine once')
    fv = unparse(eng[0].targets[0])
    from ..pattern import find_expr

    for r in rets:
        t = unparse(r.value)
        if t == fv:
            ok, what = True, 'unscaled: the engine value'
        else:
            # the matcher looks through temporaries (sample_size = self.database.get_sample_size())
            hit = [b for b in find_expr(r, '_F / float(self.database.get_sample_size())') + find_expr(r, '_F / self.database.get_sample_size()') if b['__node__'] is r.value]
            ok = bool(hit) and hit[0]['_F'] == fv
            what = f'scaled: {t}'
        guard = [i for i in walk_no_nested(f.node) if isinstance(i, ast.If) and r in i.body]
        if t != fv:
            ok = ok and len(guard) == 1 and unparse(guard[0].test) == 'scaled'
        wrong = None
        if not ok and t != fv:
            # a quotient of the engine value by another count of the database
            q = r.value
            if isinstance(q, ast.BinOp) and isinstance(q.op, ast.Div) and unparse(q.left) == fv:
                q = ast.BinOp(left=q.left, op=q.op, right=inline_locals(f.node, q.right))
                den = q.right.args[0] if isinstance(q.right, ast.Call) and call_name(q.right) == 'float' and len(q.right.args) == 1 else q.right
                m_ = re.fullmatch(r'self\.database\.(\w+)\(\)', unparse(den))
                if m_ and m_.group(1) != 'get_sample_size':
                    wrong = f'the scaled value is {fv} / {unparse(den)}: the divisor is not the sample size (get_sample_size(): the number of individuals for panel data)'
        ctx.add('C04.R3', f'BIOGEME.calculate_likelihood:{"scaled" if t != fv else "raw"}', (ok if ok or wrong else None), (f.file, r.lineno), (what if ok else wrong or f'{what}: the return of calculate_likelihood is not in the expected form (engine value, or engine value / sample size under `scaled`)'), t, positive=bool(wrong))
    g = B.methods['calculate_likelihood_and_derivatives']
    divisors = {unparse(n.right) for n in walk_no_nested(g.node) if isinstance(n, ast.BinOp) and isinstance(n.op, ast.Div) and isinstance(n.right, ast.Name)}
    ss = [n for n in walk_no_nested(g.node) if isinstance(n, ast.Assign) and 'self.database.' in unparse(n.value) and isinstance(n.targets[0], ast.Name) and n.targets[0].id in divisors]
    ok = len(ss) == 1 and unparse(ss[0].value) in ('float(self.database.get_sample_size())', 'self.database.get_sample_size()')
    other_count = None
    if not ok and len(ss) == 1:
        m_ = re.fullmatch(r'(?:float\()?self\.database\.(\w+)\(\)\)?', unparse(ss[0].value))
        if m_ and m_.group(1) != 'get_sample_size':
            other_count = f'the value and its derivatives are divided by {unparse(ss[0].value)}: the scaled variant is the sum divided by the sample size (get_sample_size(): the number of individuals for panel data)'
    ctx.add('C04.R3', 'BIOGEME.calculate_likelihood_and_derivatives:divisor', ok if (ok or other_count) else None, g, (f'the divisor is {unparse(ss[0].value)}' if ok else other_count or 'the divisor of the scaled variant is not in the expected form'),
            unparse(ss[0].value) if ss else '', positive=bool(other_count))
    if ok:
        d = ss[0].targets[0].id
        cfg = cfg_of(g.node)
        zero = [n for n in walk_no_nested(g.node) if isinstance(n, ast.If) and unparse(n.test) == f'{d} == 0' and any(isinstance(x, ast.Raise) for x in n.body)]
        divs = [n for n in walk_no_nested(g.node) if isinstance(n, ast.BinOp) and isinstance(n.op, ast.Div) and unparse(n.right) == d]
        okz = len(zero) == 1 and len(divs) == 4 and all(cfg.dominates(cfg.node_of(zero[0]), cfg.node_of(x)) for x in divs)
        ctx.add('C04.R3', 'BIOGEME.calculate_likelihood_and_derivatives:zero-guard', okz, g, 'a zero sample size is refused before the four divisions' if okz else 'zero sample size not refused before dividing', 'zero')
        sc = [n for n in walk_no_nested(g.node) if isinstance(n, ast.If) and unparse(n.test) == 'scaled']
        oks = len(sc) == 1 and all(cfg.dominates(cfg.node_of(sc[0]), cfg.node_of(x)) for x in divs)
        ctx.add('C04.R3', 'BIOGEME.calculate_likelihood_and_derivatives:scaled-only', oks, g, 'division happens only under `scaled`' if oks else 'division is not confined to the scaled branch', 'scaled')
    # sample size / number of observations definitions
    D = prog.cls('database', 'Database')
    f = D.methods['get_sample_size']
    txt = unparse(f.node)
    ok = 'if self.is_panel():\n        return self.individualMap.shape[0]' in txt and unparse(f.body[-1]) == 'return self.data.shape[0]'
    ctx.add('C04.R3', 'Database.get_sample_size', ok, f, 'sample size = number of individuals for panel data, number of rows otherwise' if ok else 'get_sample_size changed', 'sample_size')
    restore_rule(ctx, 'C04.R4')
    ctx.floor('C04.R3', 6)
    _roles(ctx)
    # "... nor on how the rows are split into parts whose values are added": the parts Database.split hands out are a partition
    ctx.rule('C04.R6', 'the folds of Database.split partition the rows (rules of C13.R3): the values of the validation parts add up to the value of the whole sample')
    from . import c13

    sub = Ctx(ctx.prog, ctx.prop, ctx.tier)
    c13.run(sub)
    got = 0
    for o in sub.obligations:
        if o.rule == 'C13.R3' and o.construct.startswith('Database.split'):
            got += 1
            ctx.adopt('C04.R6', o)
    ctx.need(got >= 4, 'the obligations of C13.R3 on Database.split')


_B = 'src/biogeme/biogeme.py'
MUTANTS = [
    dict(name='scaled likelihood divided by the number of observations (seed C04/1)', rule='C04.R3', file=_B,
         old='            return f / float(self.database.get_sample_size())', new='            return f / float(self.database.get_number_of_observations())'),
    dict(name='engine restored with fullData (seed C04/2)', rule='C04', file=_B,
         old='                else:\n                    self.theC.setData(self.database.data)\n', new='                else:\n                    self.theC.setData(self.database.fullData)\n'),
    dict(name='pre-fix: no restore after bootstrapping', rule='C04.R4', file=_B,
         old='            finally:\n                self.save_iterations = saving_iterations\n                # The engine must work again with the full sample\n                if self.database.is_panel():\n                    self.theC.setDataMap(self.database.individualMap)\n                else:\n                    self.theC.setData(self.database.data)\n',
         new='            finally:\n                self.save_iterations = saving_iterations\n'),
    dict(name='setExpressions(loglike, weight, threads)', rule='C04.R1', file=_B,
         old='                    self.loglikeSignatures,\n                    self.number_of_threads,\n                    self.weightSignatures,', new='                    self.loglikeSignatures,\n                    self.weightSignatures,\n                    self.number_of_threads,'),
    dict(name='simulate passes the number of rows as sample size', rule='C04.R1', file=_B,
         old='            self.number_of_threads,\n            self.database.get_sample_size(),\n        )', new='            self.number_of_threads,\n            self.database.get_number_of_observations(),\n        )'),
    dict(name='simulate hands over free and fixed values swapped', rule='C04.R1', file=_B,
         old='            beta_values,\n            self.id_manager.fixed_betas_values,\n            self.database.data,', new='            self.id_manager.fixed_betas_values,\n            beta_values,\n            self.database.data,'),
    dict(name='thread count taken raw from the parameters', rule='C04.R1', file=_B,
         old='                self.theC.setExpressions(self.loglikeSignatures, self.number_of_threads)', new="                self.theC.setExpressions(self.loglikeSignatures, self.biogeme_parameters.get_value('number_of_threads'))"),
    dict(name='number_of_threads no longer maps 0 to the CPU count', rule='C04.R2', file=_B,
         old='        return mp.cpu_count() if nbr_threads == 0 else nbr_threads', new='        return nbr_threads'),
    dict(name='hessian scaled by the square of the sample size', rule='C0', file=_B,
         old='                hessian=np.asarray(h) / sample_size,', new='                hessian=np.asarray(h) / sample_size**2,'),
    dict(name='sample size of a panel counted in rows', rule='C04.R3', file='src/biogeme/database.py',
         old='        if self.is_panel():\n            return self.individualMap.shape[0]\n            return self.individualMap.shape[0]', new='        if self.is_panel():\n            return self.data.shape[0]'),
    dict(name='weight formula handed over as log likelihood', rule='C04.R1', file=_B,
         old='                self.weightSignatures: list[bytes] = self.weight.get_signature()', new='                self.weightSignatures: list[bytes] = self.log_like.get_signature()'),
]
NEUTRAL = [
    dict(name='engine value renamed', file=_B, old='        f = self.theC.calculateLikelihood(x, self.id_manager.fixed_betas_values)\n\n        logger.debug(\n            f"Log likelihood (N = {self.database.get_sample_size()}): {f:10.7g}"\n        )\n\n        if scaled:\n            return f / float(self.database.get_sample_size())\n\n        return f',
         new='        total = self.theC.calculateLikelihood(x, self.id_manager.fixed_betas_values)\n\n        if scaled:\n            return total / float(self.database.get_sample_size())\n\n        return total'),
]
