"""Whole-package behaviour-preserving variants, built in memory from today's sources.

Each transformation rewrites every module of the package with an ``ast`` transformer and unparses it; the
checks of a property are then run on the variant and must report nothing that they do not report on the
current tree.  They measure the false-alarm side of the rules against the most common kinds of edit that
leave behaviour unchanged; they are part of the thorough tier and never change the verdict about /repo.
"""

from __future__ import annotations

import ast

from .core import Program


def _locals_of(fn) -> set[str]:
    params = {a.arg for a in fn.args.posonlyargs + fn.args.args + fn.args.kwonlyargs}
    if fn.args.vararg:
        params.add(fn.args.vararg.arg)
    if fn.args.kwarg:
        params.add(fn.args.kwarg.arg)
    out, glob = set(), set()

    def walk(n):
        for ch in ast.iter_child_nodes(n):
            if isinstance(ch, (ast.FunctionDef, ast.AsyncFunctionDef, ast.ClassDef, ast.Lambda)):
                continue
            if isinstance(ch, (ast.Global, ast.Nonlocal)):
                glob.update(ch.names)
            if isinstance(ch, ast.Name) and isinstance(ch.ctx, ast.Store):
                out.add(ch.id)
            walk(ch)

    walk(fn)
    return {x for x in out - params - glob if not x.startswith('__')}


class RenameLocals(ast.NodeTransformer):
    """every local (assigned names, loop / comprehension / with targets; not parameters, globals, attributes) gets a suffix"""

    def __init__(self, suffix='_rn'):
        self.suffix = suffix
        self.stack = []

    def visit_FunctionDef(self, node):
        self.stack.append(_locals_of(node))
        self.generic_visit(node)
        self.stack.pop()
        return node

    def visit_Name(self, node):
        for loc in reversed(self.stack):
            if node.id in loc:
                node.id = node.id + self.suffix
                break
        return node

    def visit_ClassDef(self, node):
        saved, self.stack = self.stack, []
        self.generic_visit(node)
        self.stack = saved
        return node

    def visit_Lambda(self, node):
        return node


class Reformat(ast.NodeTransformer):
    """parse / unparse only: comments vanish, quotes, parentheses and line breaks are normalised"""


class AnnotateLocals(ast.NodeTransformer):
    """`x = e` on a plain local becomes `x: object = e` (annotations of locals are never evaluated)"""

    def __init__(self):
        self.depth = 0

    def visit_FunctionDef(self, node):
        self.depth += 1
        glob = {n for s in ast.walk(node) if isinstance(s, (ast.Global, ast.Nonlocal)) for n in s.names}
        self.glob = glob
        self.generic_visit(node)
        self.depth -= 1
        return node

    def visit_ClassDef(self, node):
        saved, self.depth = self.depth, 0
        self.generic_visit(node)
        self.depth = saved
        return node

    def visit_Assign(self, node):
        if self.depth and len(node.targets) == 1 and isinstance(node.targets[0], ast.Name) and node.targets[0].id not in getattr(self, 'glob', ()):
            return ast.copy_location(ast.AnnAssign(target=node.targets[0], annotation=ast.Name(id='object', ctx=ast.Load()), value=node.value, simple=1), node)
        return node


class DebugLogging(ast.NodeTransformer):
    """a `logger.debug(...)` call is inserted at the top of every function of a module that defines `logger`"""

    def __init__(self):
        self.has_logger = False

    def visit_Module(self, node):
        self.has_logger = any(isinstance(s, ast.Assign) and any(isinstance(t, ast.Name) and t.id == 'logger' for t in s.targets) for s in node.body)
        if self.has_logger:
            self.generic_visit(node)
        return node

    def visit_FunctionDef(self, node):
        self.generic_visit(node)
        if any(isinstance(d, ast.Call) and getattr(d.func, 'id', '') == 'deprecated' for d in node.decorator_list):
            return node
        call = ast.Expr(ast.Call(func=ast.Attribute(value=ast.Name(id='logger', ctx=ast.Load()), attr='debug', ctx=ast.Load()),
                                 args=[ast.Constant(f'entering {node.name}')], keywords=[]))
        i = 1 if node.body and isinstance(node.body[0], ast.Expr) and isinstance(node.body[0].value, ast.Constant) and isinstance(node.body[0].value.value, str) else 0
        if len(node.body) == 1 and isinstance(node.body[0], ast.Pass):
            return node
        node.body.insert(i, call)
        return node


class MessageViaLocal(ast.NodeTransformer):
    """`raise X(f'...')` becomes `message_ = f'...'; raise X(message_)` and the reverse is left alone"""

    def visit_Raise(self, node):
        e = node.exc
        if isinstance(e, ast.Call) and len(e.args) == 1 and not e.keywords and isinstance(e.args[0], (ast.JoinedStr, ast.Constant)):
            asg = ast.Assign(targets=[ast.Name(id='message_', ctx=ast.Store())], value=e.args[0])
            e.args[0] = ast.Name(id='message_', ctx=ast.Load())
            return [ast.copy_location(asg, node), node]
        return node


class ReturnViaLocal(ast.NodeTransformer):
    """`return f(...)` / `return a + b` becomes `result_ = ...; return result_`"""

    def visit_Return(self, node):
        if isinstance(node.value, (ast.Call, ast.BinOp, ast.ListComp, ast.DictComp, ast.SetComp, ast.JoinedStr, ast.Subscript, ast.IfExp, ast.BoolOp, ast.Compare)):
            asg = ast.Assign(targets=[ast.Name(id='result_', ctx=ast.Store())], value=node.value)
            node.value = ast.Name(id='result_', ctx=ast.Load())
            return [ast.copy_location(asg, node), node]
        return node

    def visit_Lambda(self, node):
        return node


class InlineMessage(ast.NodeTransformer):
    """`msg = f'...'; raise X(msg)` becomes `raise X(f'...')` when msg is not used elsewhere"""

    def _block(self, stmts):
        out = []
        i = 0
        while i < len(stmts):
            st = stmts[i]
            nxt = stmts[i + 1] if i + 1 < len(stmts) else None
            if (isinstance(st, ast.Assign) and len(st.targets) == 1 and isinstance(st.targets[0], ast.Name) and isinstance(st.value, (ast.JoinedStr, ast.Constant))
                    and isinstance(nxt, ast.Raise) and isinstance(nxt.exc, ast.Call) and len(nxt.exc.args) == 1 and isinstance(nxt.exc.args[0], ast.Name)
                    and nxt.exc.args[0].id == st.targets[0].id and nxt.cause is None):
                nxt.exc.args[0] = st.value
                out.append(nxt)
                i += 2
                continue
            out.append(st)
            i += 1
        return out

    def generic_visit(self, node):
        super().generic_visit(node)
        for field in ('body', 'orelse', 'finalbody'):
            v = getattr(node, field, None)
            if isinstance(v, list) and v and isinstance(v[0], ast.stmt):
                setattr(node, field, self._block(v))
        return node


class ExpandAugAssign(ast.NodeTransformer):
    """`n += 1` on a plain name with a numeric constant becomes `n = n + 1`"""

    def visit_AugAssign(self, node):
        if isinstance(node.target, ast.Name) and isinstance(node.value, ast.Constant) and isinstance(node.value.value, (int, float)) and not isinstance(node.value.value, bool):
            return ast.copy_location(ast.Assign(targets=[ast.Name(id=node.target.id, ctx=ast.Store())],
                                                value=ast.BinOp(left=ast.Name(id=node.target.id, ctx=ast.Load()), op=node.op, right=node.value)), node)
        return node


class ElseAfterJump(ast.NodeTransformer):
    """inside functions `if c: ...; return` followed by the rest of the block becomes `if c: ...; return` / `else: rest`"""

    def __init__(self):
        self.depth = 0

    def visit_FunctionDef(self, node):
        self.depth += 1
        self.generic_visit(node)
        self.depth -= 1
        return node

    def visit_ClassDef(self, node):
        saved, self.depth = self.depth, 0
        self.generic_visit(node)
        self.depth = saved
        return node

    def generic_visit(self, node):
        super().generic_visit(node)
        if self.depth:
            for field in ('body', 'orelse', 'finalbody'):
                v = getattr(node, field, None)
                if isinstance(v, list) and v and isinstance(v[0], ast.stmt):
                    setattr(node, field, self._block(v))
        return node

    def _block(self, stmts):
        for i, st in enumerate(stmts[:-1]):
            if isinstance(st, ast.If) and not st.orelse and isinstance(st.body[-1], (ast.Return, ast.Raise, ast.Continue, ast.Break)):
                st.orelse = self._block(stmts[i + 1:])
                return stmts[: i + 1]
        return stmts


class NegateAndSwap(ast.NodeTransformer):
    """`if c: A else: B` becomes `if not c: B else: A` (`is` / `==` / `in` use their negative operator)"""

    def visit_If(self, node):
        self.generic_visit(node)
        if node.orelse and not (len(node.orelse) == 1 and isinstance(node.orelse[0], ast.If)):
            t = node.test
            swap = {ast.Is: ast.IsNot, ast.Eq: ast.NotEq, ast.In: ast.NotIn, ast.IsNot: ast.Is, ast.NotEq: ast.Eq, ast.NotIn: ast.In}
            if isinstance(t, ast.Compare) and len(t.ops) == 1 and type(t.ops[0]) in swap:
                node.test = ast.Compare(left=t.left, ops=[swap[type(t.ops[0])]()], comparators=t.comparators)
            elif isinstance(t, ast.UnaryOp) and isinstance(t.op, ast.Not):
                node.test = t.operand
            else:
                node.test = ast.UnaryOp(op=ast.Not(), operand=t)
            node.body, node.orelse = node.orelse, node.body
        return node


_PURE_CALLS = {'len', 'list', 'set', 'dict', 'tuple', 'sorted', 'sum', 'min', 'max', 'int', 'float', 'str', 'bool', 'abs'}


def _pure(e: ast.AST) -> bool:
    for n in ast.walk(e):
        if isinstance(n, ast.Call) and not (isinstance(n.func, ast.Name) and n.func.id in _PURE_CALLS):
            return False
        if isinstance(n, (ast.Yield, ast.YieldFrom, ast.Await, ast.NamedExpr, ast.Lambda)):
            return False
    return True


def _simple_assign(st) -> bool:
    return isinstance(st, ast.Assign) and len(st.targets) == 1 and isinstance(st.targets[0], ast.Name) and _pure(st.value)


def independent(a, b) -> bool:
    """two plain assignments to different locals, neither reading the other's target, both with pure right-hand sides"""
    if not (_simple_assign(a) and _simple_assign(b)):
        return False
    ta, tb = a.targets[0].id, b.targets[0].id
    ra = {n.id for n in ast.walk(a.value) if isinstance(n, ast.Name)}
    rb = {n.id for n in ast.walk(b.value) if isinstance(n, ast.Name)}
    return ta != tb and ta not in rb and tb not in ra


class SwapIndependent(ast.NodeTransformer):
    """adjacent independent plain assignments to locals (pure right-hand sides) are swapped"""

    def __init__(self):
        self.depth = 0

    def visit_FunctionDef(self, node):
        self.depth += 1
        self.generic_visit(node)
        self.depth -= 1
        return node

    def visit_ClassDef(self, node):
        saved, self.depth = self.depth, 0
        self.generic_visit(node)
        self.depth = saved
        return node

    def generic_visit(self, node):
        super().generic_visit(node)
        if self.depth:
            for field in ('body', 'orelse', 'finalbody'):
                v = getattr(node, field, None)
                if isinstance(v, list) and v and isinstance(v[0], ast.stmt):
                    i = 0
                    while i + 1 < len(v):
                        if independent(v[i], v[i + 1]):
                            v[i], v[i + 1] = v[i + 1], v[i]
                            i += 2
                        else:
                            i += 1
        return node


class AddUnrelated(ast.NodeTransformer):
    """every module gets an unused helper function and every class an unused method"""

    def visit_Module(self, node):
        self.generic_visit(node)
        node.body.append(ast.parse("def _unused_helper_(value):\n    return value\n").body[0])
        return node

    def visit_ClassDef(self, node):
        self.generic_visit(node)
        if any(isinstance(b, ast.Name) and b.id in ('NamedTuple', 'Enum', 'Protocol') for b in node.bases):
            return node
        node.body.append(ast.parse("def _unused_method_(self):\n    return repr(self)\n").body[0])
        return node


class StripDocstrings(ast.NodeTransformer):
    """docstrings of modules, classes and functions are removed"""

    def generic_visit(self, node):
        super().generic_visit(node)
        if isinstance(node, (ast.Module, ast.ClassDef, ast.FunctionDef, ast.AsyncFunctionDef)) and node.body:
            f = node.body[0]
            if isinstance(f, ast.Expr) and isinstance(f.value, ast.Constant) and isinstance(f.value.value, str):
                node.body = node.body[1:] or [ast.Pass()]
        return node


class StripAnnotations(ast.NodeTransformer):
    """parameter and return annotations of functions are removed (annotations are not evaluated by a call)"""

    def visit_FunctionDef(self, node):
        self.generic_visit(node)
        if any(isinstance(d, ast.Name) and d.id == 'dataclass' for d in node.decorator_list):
            return node
        for a in node.args.posonlyargs + node.args.args + node.args.kwonlyargs + [x for x in (node.args.vararg, node.args.kwarg) if x]:
            a.annotation = None
        node.returns = None
        return node


class AllTogether:
    """twelve of the transformations below applied one after the other"""


class KeywordizeCalls(ast.NodeTransformer):
    """`f(a, b)` becomes `f(x=a, y=b)` for calls of functions of the same module and `self.m(a)` calls of methods of the same class"""

    def __init__(self):
        self.mod_funcs = {}
        self.cls_methods = []

    @staticmethod
    def _params(fn, drop_first):
        a = fn.args
        if a.vararg or a.posonlyargs:
            return None
        names = [x.arg for x in a.args]
        return names[1:] if drop_first else names

    def visit_Module(self, node):
        self.mod_funcs = {f.name: self._params(f, False) for f in node.body if isinstance(f, ast.FunctionDef)}
        self.generic_visit(node)
        return node

    def visit_ClassDef(self, node):
        m = {}
        for f in node.body:
            if isinstance(f, ast.FunctionDef):
                static = any(isinstance(d, ast.Name) and d.id == 'staticmethod' for d in f.decorator_list)
                prop = any((isinstance(d, ast.Name) and d.id == 'property') or isinstance(d, ast.Attribute) for d in f.decorator_list)
                if not prop:
                    m[f.name] = self._params(f, not static)
        self.cls_methods.append(m)
        self.generic_visit(node)
        self.cls_methods.pop()
        return node

    def visit_Call(self, node):
        self.generic_visit(node)
        if any(isinstance(a, ast.Starred) for a in node.args) or any(k.arg is None for k in node.keywords) or not node.args:
            return node
        params = None
        if isinstance(node.func, ast.Name):
            params = self.mod_funcs.get(node.func.id)
        elif isinstance(node.func, ast.Attribute) and isinstance(node.func.value, ast.Name) and node.func.value.id == 'self' and self.cls_methods:
            params = self.cls_methods[-1].get(node.func.attr)
        if not params or len(node.args) > len(params):
            return node
        kws = [ast.keyword(arg=params[i], value=a) for i, a in enumerate(node.args)]
        node.keywords = kws + node.keywords
        node.args = []
        return node


class ExtractArgument(ast.NodeTransformer):
    """`f(a, g(x))` as a statement, assignment or return becomes `arg_ = g(x); f(a, arg_)`: the first argument that is itself a
    computation gets a name (only when everything evaluated before it is a plain name / attribute / constant)"""

    def __init__(self):
        self.k = 0
        self.in_function = 0

    @staticmethod
    def _simple(e):
        return isinstance(e, (ast.Name, ast.Constant)) or (isinstance(e, ast.Attribute) and ExtractArgument._simple(e.value))

    def _rewrite(self, st):
        if not self.in_function or not isinstance(st, (ast.Assign, ast.Return, ast.Expr)) or not isinstance(st.value, ast.Call):
            return [st]
        c = st.value
        if not self._simple(c.func) or c.keywords and any(k.arg is None for k in c.keywords):
            return [st]
        if isinstance(c.func, ast.Attribute) and isinstance(c.func.value, ast.Call):
            return [st]
        if isinstance(c.func, ast.Name) and c.func.id in ('super', 'locals', 'globals', 'vars'):
            return [st]
        for i, a in enumerate(c.args):
            if isinstance(a, ast.Starred):
                return [st]
            if self._simple(a):
                continue
            if isinstance(a, (ast.Call, ast.BinOp, ast.Subscript, ast.JoinedStr, ast.Compare)) and not any(isinstance(n, (ast.Lambda, ast.NamedExpr, ast.Yield, ast.Await)) for n in ast.walk(a)):
                self.k += 1
                name = f'arg_{self.k}_'
                asg = ast.copy_location(ast.Assign(targets=[ast.Name(id=name, ctx=ast.Store())], value=a), st)
                c.args[i] = ast.copy_location(ast.Name(id=name, ctx=ast.Load()), a)
                return [asg, st]
            return [st]
        return [st]

    def _func(self, node):
        self.in_function += 1
        self.generic_visit(node)
        self.in_function -= 1
        return node

    visit_FunctionDef = _func

    def visit_Lambda(self, node):
        return node

    def generic_visit(self, node):
        super().generic_visit(node)
        for field in ('body', 'orelse', 'finalbody'):
            v = getattr(node, field, None)
            if isinstance(v, list) and v and isinstance(v[0], ast.stmt) and not isinstance(node, (ast.ClassDef, ast.Module)):
                out = []
                for st in v:
                    out.extend(self._rewrite(st))
                setattr(node, field, out)
        return node


class ComprehensionToLoop(ast.NodeTransformer):
    """`x = [e for a in b if c]` becomes `x = []` + explicit loop with append (dictionaries: item assignment), when the
    variables of the comprehension are used nowhere else in the function"""

    def visit_FunctionDef(self, node):
        self.generic_visit(node)
        names: dict[str, int] = {}
        for n in ast.walk(node):
            if isinstance(n, ast.Name):
                names[n.id] = names.get(n.id, 0) + 1
            elif isinstance(n, ast.arg):
                names[n.arg] = names.get(n.arg, 0) + 1

        def block(stmts):
            out = []
            for st in stmts:
                for field in ('body', 'orelse', 'finalbody'):
                    v = getattr(st, field, None)
                    if isinstance(v, list) and v and isinstance(v[0], ast.stmt) and not isinstance(st, (ast.FunctionDef, ast.ClassDef)):
                        setattr(st, field, block(v))
                comp = st.value if isinstance(st, ast.Assign) and len(st.targets) == 1 and isinstance(st.targets[0], ast.Name) else None
                if isinstance(comp, (ast.ListComp, ast.DictComp)):
                    own = [n for n in ast.walk(comp) if isinstance(n, ast.Name)]
                    tv = {x.id for g in comp.generators for x in ast.walk(g.target) if isinstance(x, ast.Name)}
                    inside = {}
                    for n in own:
                        inside[n.id] = inside.get(n.id, 0) + 1
                    tgt = st.targets[0].id
                    if all(names.get(t, 0) == inside.get(t, 0) for t in tv) and tgt not in inside and not any(isinstance(n, (ast.Lambda, ast.ListComp, ast.DictComp, ast.SetComp, ast.GeneratorExp)) and n is not comp for n in ast.walk(comp)):
                        if isinstance(comp, ast.ListComp):
                            init = ast.List(elts=[], ctx=ast.Load())
                            inner = ast.Expr(value=ast.Call(func=ast.Attribute(value=ast.Name(id=tgt, ctx=ast.Load()), attr='append', ctx=ast.Load()), args=[comp.elt], keywords=[]))
                        else:
                            init = ast.Dict(keys=[], values=[])
                            inner = ast.Assign(targets=[ast.Subscript(value=ast.Name(id=tgt, ctx=ast.Load()), slice=comp.key, ctx=ast.Store())], value=comp.value)
                        for g in reversed(comp.generators):
                            for c in reversed(g.ifs):
                                inner = ast.If(test=c, body=[inner], orelse=[])
                            inner = ast.For(target=g.target, iter=g.iter, body=[inner], orelse=[])
                        out.append(ast.copy_location(ast.Assign(targets=[ast.Name(id=tgt, ctx=ast.Store())], value=init), st))
                        out.append(ast.copy_location(inner, st))
                        continue
                out.append(st)
            return out

        node.body = block(node.body)
        return node


class KeywordizeImported(ast.NodeTransformer):
    """`Beta(n, 1, 0, None, 0)` becomes `Beta(name=n, value=1, ...)` for callees defined once anywhere in the package
    (functions, constructors, methods with a package-unique name), using the signature table of the normal form"""

    def visit_Call(self, node):
        from . import normal

        self.generic_visit(node)
        if any(isinstance(a, ast.Starred) for a in node.args) or any(k.arg is None for k in node.keywords) or not node.args:
            return node
        params = None
        if isinstance(node.func, ast.Name):
            params = normal.SIGS.get(node.func.id)
        elif isinstance(node.func, ast.Attribute) and not (isinstance(node.func.value, ast.Name) and node.func.value.id in ('self', 'super')):
            params = normal.METHOD_SIGS.get(node.func.attr)
        if not params or len(node.args) > len(params):
            return node
        node.keywords = [ast.keyword(arg=params[i], value=a) for i, a in enumerate(node.args)] + node.keywords
        node.args = []
        return node


TRANSFORMS = {
    'all-together': lambda: AllTogether(),
    'keywordize-imported': lambda: KeywordizeImported(),
    'extract-argument': lambda: ExtractArgument(),
    'comprehension-to-loop': lambda: ComprehensionToLoop(),
    'keywordize-calls': lambda: KeywordizeCalls(),
    'add-unrelated': lambda: AddUnrelated(),
    'strip-docstrings': lambda: StripDocstrings(),
    'strip-annotations': lambda: StripAnnotations(),
    'swap-independent': lambda: SwapIndependent(),
    'else-after-jump': lambda: ElseAfterJump(),
    'negate-and-swap': lambda: NegateAndSwap(),
    'return-via-local': lambda: ReturnViaLocal(),
    'inline-message': lambda: InlineMessage(),
    'expand-augassign': lambda: ExpandAugAssign(),
    'rename-locals': lambda: RenameLocals('_rn'),
    'reformat': lambda: Reformat(),
    'annotate-locals': lambda: AnnotateLocals(),
    'debug-logging': lambda: DebugLogging(),
    'message-via-local': lambda: MessageViaLocal(),
}


COMPOSITE = ['rename-locals', 'annotate-locals', 'debug-logging', 'message-via-local', 'return-via-local', 'expand-augassign', 'negate-and-swap',
             'else-after-jump', 'swap-independent', 'keywordize-calls', 'add-unrelated', 'strip-docstrings']


def variant(prog: Program, name: str) -> Program:
    if name == 'all-together':
        for n in COMPOSITE:
            prog = variant(prog, n)
        return prog
    srcs = {}
    for path, src in prog.sources.items():
        if not path.endswith('.py'):
            srcs[path] = src
            continue
        try:
            t = ast.parse(src)
        except SyntaxError:
            srcs[path] = src
            continue
        t = TRANSFORMS[name]().visit(t)
        ast.fix_missing_locations(t)
        srcs[path] = ast.unparse(t) + '\n'
    return Program(srcs)
