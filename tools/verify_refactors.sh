#!/bin/bash
# verify_refactors.sh <PID>...: in ${WTROOT:-/tmp/wt3}/<PID> apply the four refactorings together, run the baseline suite, compare with BASELINE.json, undo
for P in "$@"; do
  ( W=${WTROOT:-/tmp/wt3}/$P; cd $W && git checkout -q -- src && ok=1
    for k in 1 2 3 4; do [ -f REFACTOR/$k/patch.diff ] && { git apply REFACTOR/$k/patch.diff || { echo "$P/$k does not apply with the others"; ok=0; }; }; done
    PYTHONPATH=$W/src timeout 1500 /venv/bin/python -m pytest -q -p no:cacheprovider --timeout=900 --continue-on-collection-errors --junitxml=$W/REFACTOR/junit.xml tests > $W/REFACTOR/pytest.log 2>&1
    python3-vt /verif/tools/check_baseline.py $W/REFACTOR/junit.xml > $W/REFACTOR/baseline.txt 2>&1; B=$?
    git checkout -q -- src; rm -f $W/__*.iter
    echo "$P applied_ok=$ok baseline_ok=$B :: $(tail -1 $W/REFACTOR/pytest.log | tr -d '=')" ) &
done
wait
