#!/usr/bin/env python3
"""Compare a junit xml of the baseline command with BASELINE.json's stable_pass list."""
import json, sys, xml.etree.ElementTree as ET
base = json.load(open('/root/.vp/BASELINE.json'))
want = set(base['stable_pass'])
t = ET.parse(sys.argv[1])
passed = set()
failed = set()
for tc in t.iter('testcase'):
    name = f"{tc.get('classname')}::{tc.get('name')}"
    bad = any(ch.tag in ('failure', 'error', 'skipped') for ch in tc)
    (failed if bad else passed).add(name)
missing = sorted(want - passed)
print(f'passed {len(passed)}, failed {len(failed)}; baseline {len(want)}; baseline tests not passing: {len(missing)}')
for m in missing:
    print('  NOT PASSING:', m)
newpass = sorted(passed - want)
print('passing but not in baseline:', len(newpass))
sys.exit(1 if missing else 0)
