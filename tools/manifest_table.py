"""Which properties are claimed, with which words.  Edited by hand; tools/gen_manifest.py turns it into MANIFEST.json."""

WIP = 'check not built yet in this round (work in progress, see DESIGN.md section 3 for the planned rules)'

CLAIMED = {
    'C20': (
        'alias table extraction + C3-MRO receiver dispatch check + wrapper shape check (ast)',
        'Decided in full for the finite set of constructs that can carry a violation: every @deprecated alias '
        '(120) resolves to the right replacement (name normalisation / stub docstring / frozen rename table), is '
        'bound as the replacement is (staticmethod), every class x alias pair (623) runs the function the class '
        'resolves for the new name, the two wrapper functions of deprecated.py contain nothing but message, '
        'warning and forwarding, every obsolete keyword maps to an accepted same-named parameter, and the '
        'hand-written obsolete properties read/write the new property. Universal over classes and aliases, '
        'which a test can only sample.',
        'DESIGN.md 3/C20',
    ),
}

CLAIMED['C11'] = (
    'constant propagation through the generator helpers + table agreement + sympy normal form of the AS241 Horner forms (ast)',
    'For all 21 catalogue entries: key tokens = description tokens = feature vector of the bound generator (distribution, support, '
    'source, base, skip, antithetic construction, draw count) obtained by propagating constants through native_draws.py into the base '
    'generators; the base generators themselves are checked for the 2u-1 map, the mirror constructions, the returned shape, the Halton '
    'skip slice and the MLHS stratum formula; the 49 AS241 constants, the three Horner forms, region predicates and sign handling are '
    'compared with the published algorithm. Decides which sequence each name is bound to and that the quantile routine is the published '
    'one, not the numeric values of the arrays. One known finding (central-region predicate of AS241).',
    'DESIGN.md 3/C11',
)

CLAIMED['C01'] = (
    'writer/reader record-template agreement with the engine grammar, operator table, leaf-id table, finite-abstraction interpretation of the Python evaluator, engine-call roles (ast)',
    'Decides that the formula the engine receives is the formula the user wrote: all 23 operator dunders build the class of the Python data model with the '
    'operands in the right order; for every serialisable class (44 engine tags) the record template extracted from its resolved get_signature, expressed in '
    'constructor-parameter positions, equals the grammar of bioFormula.cc::processFormula; children are emitted before the record that references them; leaf '
    'ids come from the right IdManager table (free iff status == 0); every ExpressionOrNumeric parameter is converted. The pure-Python evaluator is decided '
    'exactly for comparison/logical/min/max operators by exhaustive interpretation over the finite abstraction of their operands, and by extraction for the '
    'others. Universal over operator kinds and nestings (a record is built per node, independently of its position). Not decided: engine arithmetic.',
    'DESIGN.md 3/C01',
)

CLAIMED['C05'] = (
    'twin-table sibling check, homogeneity-degree typing (abstract interpretation with sympy degrees), availability-guard flow check, telescoping pattern check (ast)',
    'Decides the structural clauses: each probability function is exp of its log twin with identical arguments (7 pairs); in the four MEV builders every '
    'ln G_i - nest members and alternatives alone - is typed as the log of a function of y=exp(V) homogeneous of the same degree mu-1, which is necessary and '
    'sufficient for invariance of P_i ~ exp(V_i + ln G_i) under V -> V + c given homogeneous terms; every nest-sum term is guarded by the availability of the '
    'same alternative and the kernel receives the availabilities unchanged; LogLogit.get_value returns log-probabilities <= 0; the ordered model entries '
    'telescope with non-negative free increments. Not decided: range and sum of the logit kernel inside the engine, user-supplied generating terms.',
    'DESIGN.md 3/C05',
)
CLAIMED['C06'] = (
    'homogeneity-degree typing of the generating function, sympy normal-form comparison of scaled (mu:=1) and unscaled term templates, nullability of log arguments, CFG dominance for the legacy-syntax conversion (ast)',
    'Decides: every term of the published nested-logit generating function has degree 1 with one term per nest / per alternative alone, and every published '
    'ln G_i has degree 0 (necessary for G_i to be the partial derivatives of G); the per-alternative term of each scaled builder with mu:=1 equals the unscaled '
    'one in sympy normal form; legacy tuples are converted by cls(*tuple) with the documented field order and validated before the nests are used. One known '
    'finding (cnlmu uses log where cnl uses logzero). Not decided: numeric equality of the reduced models.',
    'DESIGN.md 3/C06',
)

CLAIMED['C02'] = (
    'result-slot table agreement, flag-forwarding check over all call sites, literal-id flow (ECC/ORD packs), CFG dominance of the derivative guard (ast)',
    'Decides the packaging and indexing of what the engine returns: (f,g,h,b) land in function/gradient/hessian/bhhh on the expression path and the likelihood path, '
    'each gated by its own flag and scaled by one divisor; every named output is built from the same-named raw field with one name map; a flag handed over by '
    'keyword or position lands in the same-named parameter at all 59 forwarding sites; the derivative call receives free_betas.indices.values() as literal ids, '
    'free parameters are numbered first and records carry the unique index. Not decided: the derivative values themselves (engine arithmetic).',
    'DESIGN.md 3/C02',
)
CLAIMED['C03'] = (
    'canonical-order flow rule over the whole package (ORD pack), by-name update patterns, CFG must-pass/dominance for the duplicate-name gate (ast)',
    'Decides that parameters are matched by name: every positional per-parameter vector (values, bounds, iteration-file lines, result rows, name/value zips) is built '
    'over the sorted name list of the matching kind and never over the dictionary of expressions (order of appearance) - a generic rule applied to every comprehension '
    'and loop of the package plus 12 site-specific pairings; dictionaries are turned into vectors name by name; Beta.change_init_values/fix_betas use the name of the '
    'object they write; a duplicate name is refused before ids are handed out. Not decided: invariance of optimiser outcomes.',
    'DESIGN.md 3/C03',
)
CLAIMED['C04'] = (
    'engine-call contract (argument-role flow analysis against the engine API read off cythonbiogeme.pyx), scaling sibling check, paired-on-all-exits CFG rule (ast)',
    'Decides the Python-side plumbing of the likelihood: all 31 arguments handed to the pyBiogeme object have the role the engine reads in that slot; the thread count '
    'comes from the property mapping 0 to the CPU count; scaled values are the engine result divided by get_sample_size() with a zero guard; a resample handed to the '
    'engine is replaced by the full data on every exit. Not decided: independence of row order, thread count, partition (loop lives in the engine).',
    'DESIGN.md 3/C04',
)
CLAIMED['C07'] = (
    'sign-flip sibling check, same-point flow check, bounds forwarding, write-back dominance, paired-on-all-exits rule (ast + statement CFG)',
    'Decides: NegativeLikelihood returns minus the same-named fields of one unscaled likelihood; the vector returned by optimize is the one evaluated and reported, '
    'with exactly that evaluation; bounds reach every backend that supports them in canonical order; estimates are written back to every formula by both estimation '
    'entry points and a given value (also 0.0) is always written; the engine holds the estimation data again on return. Not decided: optimality and convergence.',
    'DESIGN.md 3/C07',
)

CLAIMED['C08'] = (
    'sympy normal-form comparison of assignment right-hand sides with the defining formulas, prefix-normalised sibling comparison of the three statistic families, label/quantity table agreement (ast)',
    'Decides that every reported figure is computed by its defining formula and shown under its own label: the eight summary statistics, the pairwise test, t, p and the '
    'likelihood-ratio test are compared with the stated formula in sympy normal form; the three variance-covariance matrices and the std-err / correlation blocks match their '
    'structural definition; the classical, robust and bootstrap blocks and setters are alpha-equivalent after stripping the family prefix and read no attribute of another family; '
    'all 67 label/quantity pairs of the parameter table, correlation table, general statistics, F12 file and compiled table agree with the writer order. Not decided: numerical linear algebra.',
    'DESIGN.md 3/C08',
)

CLAIMED['C13'] = (
    'who-uses-which-indexer rule on the positional row selectors, sibling agreement of count/drop predicates, fold-construction pattern and CFG dominance (ast)',
    'Narrow: decides that rows selected by integer position always go through .iloc on the frame whose length bounds the positions (bootstrap samples, extract_rows, '
    'row split) - the only place where gaps in the row index left by remove() can select wrong rows; that remove counts and drops with one predicate and cleans up; that '
    'add_column refuses an existing name and stores the per-row engine values; that folds are complement/slice pairs, grouped by membership, and that panel data are '
    'always grouped by individual. Not decided: values after pandas operations, flatten_database, randomness.',
    'DESIGN.md 3/C13',
)
CLAIMED['C14'] = (
    'who-may-write rule (every write site must be dominated by a fresh get_new_file_name assignment) over all write-opens of the package, CFG must-pass for re-derivation on load, boolean-coding table agreement (ast)',
    'Decides: all 10 write sites of the package either obtain their file name from a get_new_file_name call that dominates the write (never a remembered name) or are '
    'one of four frozen exemptions; get_new_file_name loops until the name is free; every report iterates all rows of a parameter table that has one row per estimate; '
    'statistics are recomputed on every construction of a results object and the pickle holds exactly the raw data; booleans are written with members of TRUE_STR/FALSE_STR, '
    'parsed back iff the declared type is bool, every other value read is kept as it is, and the 27 defaults have consistent type/value. Not decided: equality of re-read values.',
    'DESIGN.md 3/C14',
)

CLAIMED['C15'] = (
    'ordering/dominance rules on the statement CFG of the iteration-file writer, reader and of estimate (write-temp-then-replace protocol, typestate of the best-so-far marker) (ast + CFG)',
    'This property is almost entirely structural and is decided nearly in full: the iteration file is never opened for writing, a uniquely named temporary file in the same '
    'directory is filled, closed and os.replace()d onto it (crash atomicity); every line carries the canonical name and the value without precision loss and the reader mirrors '
    'the writer; a point is written only with finite derivatives and f >= best-so-far, the marker is raised on every write and reset between the initial evaluation and the '
    'optimisation; saving is off during bootstrap re-estimations and restored in a finally block; the saved point is loaded into formulas and start vector before optimising. '
    'Not decided: float round trip of str(numpy.float64) (numpy documentation), file-system semantics of os.replace.',
    'DESIGN.md 3/C15',
)

CLAIMED['C12'] = (
    'audit-descent rule over all audit overrides (CFG dominance + dataflow of the returned lists), collector exhaustiveness, gate dominance, who-may-call, raise-type lint over the anchor files, call-graph reachability of the nest validation (ast + CFG)',
    'Decides "wherever the faulty element sits in the formula and under every operator kind" structurally: every audit override reaches the audit of every child on every path '
    'and returns its findings; the three placement collectors union over all children with exactly one leaf and one absorbing operator each; the engine is reached only behind '
    'audit + BiogemeError gates on the expression path, the estimation path (both ways of passing the log likelihood) and the simulation path; all 131 raise statements of the '
    'anchor files construct the library error (or one of 12 frozen API exceptions); every model function validates its nests and validity predicates never answer from inside a '
    'loop; the declared missing-data code reaches both engines; the data audit gates the Database constructor. One known finding (prepare before audit). Not decided: that valid '
    'specifications are never rejected, message clarity, the engine-side missing-value test.',
    'DESIGN.md 3/C12',
)

CLAIMED['C09'] = (
    'ordering/dominance rules on the panel map construction and its hand-over, engine-call roles, sample-size flow, placement-gate sibling check (ast + CFG)',
    'Decides the Python side of the panel mechanism: contiguity is tested (raising) before the map is built; the map is built after sorting and renumbering, as [first,last] positions; '
    'it is rebuilt before every engine use and handed over in the map slot together with setPanel(True); the sample size and the per-unit draws use the number of individuals; '
    'variables outside the trajectory operator are refused for the log likelihood however it was passed, the operator absorbs/counts correctly, Monte-Carlo on panel data requires a '
    'trajectory inside and simulation exactly one per formula. Not decided: the product over rows and the reuse of draws inside the engine.',
    'DESIGN.md 3/C09',
)
CLAIMED['C10'] = (
    'flow rule on the draw table (names/types from one id manager, column i <-> name i <-> generator of that name), dominance of the seeding, reserved-name gate, record templates of the integration operators (ast + CFG)',
    'Decides which series reaches which variable: both callers of generate_draws pass draw_types() and draws.names of the same id manager; draw_types pairs a name with the type of the '
    'expression registered under that name; column i is generated for name i with the generator of its declared type (native before user) and the variable axis is moved last; '
    'drawId is the position in the sorted names; the generator is seeded before any draw; native names are reserved; MonteCarlo / Integrate / Derive / bioDraws records carry '
    'the right child and index. Not decided: the mean over draws, quadrature, differentiation (engine).',
    'DESIGN.md 3/C10',
)

CLAIMED['C16'] = (
    'call-graph derived exhaustiveness of the catalog delegation (recursive tree methods of Expression vs overrides of MultipleExpression), canonical-id ordering rules, product-enumeration flow, operator sibling check (ast + CFG)',
    'Decides: the recursive tree methods of Expression are computed from the source (19 today) and each is either forwarded by MultipleExpression to the selected member with its own '
    'parameters in order or is in the frozen table of methods that visit all members by design - so a configured formula is traversed exactly like the hand-written one; the four '
    'accessors delegate to the same selected(); a configuration sorts, de-duplicates and then computes its id with the separators that from_string splits on; the central controller '
    'enumerates itertools.product over the states of all controllers of the tree; decrease is increase with the step negated, all operators are circular (modulo) and map a '
    'complete configuration to a complete one; a catalog selects by the index of its controller, whose names must equal the catalog names. Not decided: value equality (reduces to C01).',
    'DESIGN.md 3/C16',
)

CLAIMED['C17'] = (
    'formula normal form: the straight-line body of each helper is translated to a sympy expression (comparisons as indicator atoms) and compared with the textbook formula; Maclaurin polynomial by sympy series; code/expression sibling check (ast + sympy as normaliser)',
    'Decides the closed forms that are written in the source: normal, lognormal, uniform, triangular densities, logistic cdf and the regression log density equal the textbook '
    'expressions in sympy normal form; the constants sqrt(2 pi) and (1/2)ln(2 pi) are right to the printed precision; Box-Cox is (x^l-1)/l with its degree-3 Maclaurin polynomial on a '
    'symmetric switch; piecewise variables are the clipped segment lengths, the formula pairs beta_i with segment i and the plain function measures the first segment from the first '
    'threshold; generated segmentation code mirrors the generated expression; the nested-logit correlation is 1 - mu^2/mu_m^2 inside nests only. Not decided: numeric integration to one '
    '(follows from the closed form), numeric agreement of piecewise_function beyond the structural clause.',
    'DESIGN.md 3/C17',
)

CLAIMED['C18'] = (
    'two-sort (label / position) type inference over the five MDCEV modules, seeded from definitions (index_to_key, key_to_index, API parameters); ownership rule for array parameters; '
    'closed forms of the four variants translated to sympy per configuration and compared in normal form (utility, its derivative, its inverse) (ast + sympy as normaliser)',
    'Decides the clause "whatever integer labels the alternatives carry": every subscript, comparison and argument whose operands can be typed (140 today) respects the two sorts - '
    'label-keyed containers are indexed by labels, positional arrays (epsilon, consumptions, x, bounds) by positions obtained through key_to_index / enumerate(index_to_key); a label-keyed '
    'dictionary is flattened only in the order of index_to_key; key_to_index is built as the inverse of index_to_key; no method modifies a caller-owned array of error terms in place. '
    'Decides the clause "the numeric utility equals the symbolic utility, its derivative is the derivative of that utility, the closed-form optimal consumption inverts that derivative" '
    'for all four variants and all configurations (gamma / scale / prices present or absent), at generic interior points. '
    'Not decided: KKT conditions, budget exhaustion, optimality against brute force (numerical), boundary branches of the closed forms.',
    'DESIGN.md 3/C18',
)

CLAIMED['C19'] = (
    'ordering rules on the sampling loop (correction defined before the decrement, assigned inside the stratum), column-name table agreement between the writer and the model generator, main/second sample sort check (ast + CFG)',
    'Decides the shape of the protocol: per stratum the correction ln(k/n) is defined from the requested and the actual size before the chosen alternative is set aside, both the '
    'chosen alternative (inside its own stratum) and the drawn ones get that correction, draws are without replacement among the ids of the stratum after removing the chosen id, '
    'the chosen row is first; the second sample is weighted n/k; every column the model generator reads follows the naming scheme of the writer, indices over the main sample never '
    'use the MEV prefix and indices over the second sample always do; strata are (segment, size) pairs of the matching lists and invalid strata are refused. '
    'Not decided: equality with the full model under full sampling (engine).',
    'DESIGN.md 3/C19',
)

NOT_APPLICABLE = {f'C{i:02d}': WIP for i in range(1, 20)}

#: clauses added after the second round of seeded changes (DESIGN.md 7.8), inserted before the "Not decided" sentence
ADDED = {
    'C02': 'The whole canonical-order pack applies: every positional sequence of parameters (also the layout of a `betas=` dictionary) follows the sorted names.',
    'C03': 'Draws of the estimates are labelled with the requested names over the columns of those names. The labels of the sensitivity table are the requested names in both spellings of the table (dict comprehension, dict(zip(...))).',
    'C04': 'In a dictionary of formulas the log likelihood and the weight are the entries under their documented spellings (both aliases of each). The folds of Database.split partition the rows (C13.R3 imported): no block slicing that drops the remainder.',
    'C05': 'The branch without availabilities sums the same term as the branch with them; the records of the logit classes pair each alternative with its own utility and availability.',
    'C06': 'Each builder sums the same term with and without availabilities (passing availabilities all equal to one does not change the model).',
    'C07': 'The only definition of the reported point reaching the final evaluation and RawResults is the main optimisation (a bootstrap replication cannot replace it). An algorithm name that promises bound support is served by a function that forwards the bounds.',
    'C09': 'A resampled individual map handed to the engine is replaced by the map of the data on every exit; record and operand plumbing of PanelLikelihoodTrajectory. The table handed to the engine is database.data, the one the panel map describes.',
    'C10': 'The registered user generators are exactly those of the last call; leaf tables and records of draws and integration variables. Every source of randomness of the draw generators is the global numpy stream that the seed controls (no default_rng / RandomState / stdlib random).',
    'C12': 'Overlapping nests are searched over all pairs (adjacent pairs only is a violation); no audit statement reads the variable of the formula loop after the loop.',
    'C13': 'Rows are selected from self.data / self.individualMap only; slices of the split are not floor-division blocks.',
    'C14': 'The patterns with which a model finds its own files again are the name templates of get_new_file_name (no wildcard directly after the model name).',
    'C16': 'The alternative-specific parameters are laid out as get_index addresses them (outer loop over the alternatives).',
    'C17': 'The reference category asked for reaches self.reference.',
    'C18': 'No label or position is used as a truth value; every method of a variant that does arithmetic on the error term divides it by the scale parameter.',
    'C19': 'The utilities of each sample cover exactly the positions of that sample.',
    'C20': 'No value of an obsolete keyword is dropped by the renaming wrapper.',
}
ADDED2 = {
    'C01': 'Only set_id_manager and the constructor (and private helpers called from them alone) write the id manager of a node. A record is accused only when every field has an established role.',
    'C02': 'Derivative buffers handed to the engine are fresh, of the rank the slot needs (shape resolved through locals).',
    'C03': 'The list tested for duplicate names is the concatenation of all five kinds; a vector rebuilt by name does not read the vector it replaces.',
    'C04': 'The divisor of the scaled likelihood and derivatives is the sample size (no other count of the database); a resample handed to the engine is restored on every exit (decided on the CFG pruned by the guards of the hand-over).',
    'C07': 'Option tables: the key read is the key tested (18 instances); an algorithm that forwards bounds never resets them to None; the final evaluation is unscaled at the point the optimiser returned.',
    'C08': 'Every local entering the correlation / standard errors of a family comes from the matrix of that family (reaching definitions); a formula is accused only when all its symbols are named quantities.',
    'C09': 'The ranges of the individual map are cumulated in the order of the rows; every use of the map by the engine is preceded by a rebuild on every path (CFG).',
    'C10': 'The only guards of generate_draws in IdManager.prepare are "needs draws" / "has a database"; the sources of randomness accused are exactly the uncontrolled ones (default_rng, RandomState, stdlib random, secrets, os.urandom).',
    'C11': 'Antithetic halves stand beside each other (axis 1 / -1, hstack) and never below (axis 0, vstack, missing axis); column i of the table is the series of the i-th sorted name (C10 imported).',
    'C12': 'The key-set test of LogLogit.audit is evaluated over all pairs of small key sets and accused only with a witness pair; the duplicate-name test covers all kinds (C03 imported).',
    'C13': 'The flattening test compares all rows of an individual with the first.',
    'C14': 'Every path through bioResults.__init__ passes a call of the method that assigns the statistics (CFG must-pass); the name a writer opens is the fresh name at the write site (reaching definitions).',
    'C15': 'The iteration file is written only on paths where the gradient has neither a NaN nor an infinite entry (tests evaluated three-valued under both scenarios on the CFG).',
    'C16': 'Delegations of MultipleExpression go to the selected member through any of its accessors; accused forms: a fixed member, super(), a missing override.',
    'C17': 'Closed forms are accused only with a sample point where they differ; the first clipping width is resolved through reaching definitions to thresholds[1] - thresholds[0].',
    'C18': 'The bisection cap exceeds the 1024 halvings of the largest bracket; every return of calculate_<part>_utility evaluates the table of its own part; the two index tables of Mdcev enumerate the same ordered source.',
    'C19': 'The correction written on the chosen row is the value read under the membership test (reaching definitions); renamed variables of the second sample carry the MEV prefix.',
    'C20': 'The wrapper keeps the name of the function it wraps (deprecated() dispatches on it); a verdict on the wrappers is positive only on a named fact (exception switch on, other arguments, no forwarding return).',
}
for _pid, _sentence in ADDED2.items():
    ADDED[_pid] = (ADDED.get(_pid, '') + ' ' + _sentence).strip()
for _pid, _sentence in ADDED.items():
    _t, _text, _ref = CLAIMED[_pid]
    if ' Not decided:' in _text:
        _text = _text.replace(' Not decided:', ' ' + _sentence + ' Not decided:', 1)
    else:
        _text = _text + ' ' + _sentence
    CLAIMED[_pid] = (_t, _text, _ref)
