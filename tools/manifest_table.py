"""Which properties are claimed, with which words.  Edited by hand; tools/gen_manifest.py turns it into MANIFEST.json."""

WIP = 'check not built yet in this round (work in progress, see DESIGN.md section 3 for the planned rules)'

CLAIMED = {
    'C20': (
        'alias table extraction + C3-MRO receiver dispatch check + wrapper shape check (ast)',
        'Decided in full for the finite set of constructs that can carry a violation: every @deprecated alias '
        '(120) resolves to the right replacement (name normalisation / stub docstring / frozen rename table), is '
        'bound as the replacement is (staticmethod), every class x alias pair (623) runs the function the class '
        'resolves for the new name, the two wrapper functions of deprecated.py contain nothing but message, '
        'warning and forwarding, every obsolete keyword maps to an accepted same-named parameter, and the '
        'hand-written obsolete properties read/write the new property. Universal over classes and aliases, '
        'which a test can only sample.',
        'DESIGN.md 3/C20',
    ),
}

NOT_APPLICABLE = {f'C{i:02d}': WIP for i in range(1, 20)}
