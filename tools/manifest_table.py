"""Which properties are claimed, with which words.  Edited by hand; tools/gen_manifest.py turns it into MANIFEST.json."""

WIP = 'check not built yet in this round (work in progress, see DESIGN.md section 3 for the planned rules)'

CLAIMED = {
    'C20': (
        'alias table extraction + C3-MRO receiver dispatch check + wrapper shape check (ast)',
        'Decided in full for the finite set of constructs that can carry a violation: every @deprecated alias '
        '(120) resolves to the right replacement (name normalisation / stub docstring / frozen rename table), is '
        'bound as the replacement is (staticmethod), every class x alias pair (623) runs the function the class '
        'resolves for the new name, the two wrapper functions of deprecated.py contain nothing but message, '
        'warning and forwarding, every obsolete keyword maps to an accepted same-named parameter, and the '
        'hand-written obsolete properties read/write the new property. Universal over classes and aliases, '
        'which a test can only sample.',
        'DESIGN.md 3/C20',
    ),
}

CLAIMED['C11'] = (
    'constant propagation through the generator helpers + table agreement + sympy normal form of the AS241 Horner forms (ast)',
    'For all 21 catalogue entries: key tokens = description tokens = feature vector of the bound generator (distribution, support, '
    'source, base, skip, antithetic construction, draw count) obtained by propagating constants through native_draws.py into the base '
    'generators; the base generators themselves are checked for the 2u-1 map, the mirror constructions, the returned shape, the Halton '
    'skip slice and the MLHS stratum formula; the 49 AS241 constants, the three Horner forms, region predicates and sign handling are '
    'compared with the published algorithm. Decides which sequence each name is bound to and that the quantile routine is the published '
    'one, not the numeric values of the arrays. One known finding (central-region predicate of AS241).',
    'DESIGN.md 3/C11',
)

CLAIMED['C01'] = (
    'writer/reader record-template agreement with the engine grammar, operator table, leaf-id table, finite-abstraction interpretation of the Python evaluator, engine-call roles (ast)',
    'Decides that the formula the engine receives is the formula the user wrote: all 23 operator dunders build the class of the Python data model with the '
    'operands in the right order; for every serialisable class (44 engine tags) the record template extracted from its resolved get_signature, expressed in '
    'constructor-parameter positions, equals the grammar of bioFormula.cc::processFormula; children are emitted before the record that references them; leaf '
    'ids come from the right IdManager table (free iff status == 0); every ExpressionOrNumeric parameter is converted. The pure-Python evaluator is decided '
    'exactly for comparison/logical/min/max operators by exhaustive interpretation over the finite abstraction of their operands, and by extraction for the '
    'others. Universal over operator kinds and nestings (a record is built per node, independently of its position). Not decided: engine arithmetic.',
    'DESIGN.md 3/C01',
)

CLAIMED['C05'] = (
    'twin-table sibling check, homogeneity-degree typing (abstract interpretation with sympy degrees), availability-guard flow check, telescoping pattern check (ast)',
    'Decides the structural clauses: each probability function is exp of its log twin with identical arguments (7 pairs); in the four MEV builders every '
    'ln G_i - nest members and alternatives alone - is typed as the log of a function of y=exp(V) homogeneous of the same degree mu-1, which is necessary and '
    'sufficient for invariance of P_i ~ exp(V_i + ln G_i) under V -> V + c given homogeneous terms; every nest-sum term is guarded by the availability of the '
    'same alternative and the kernel receives the availabilities unchanged; LogLogit.get_value returns log-probabilities <= 0; the ordered model entries '
    'telescope with non-negative free increments. Not decided: range and sum of the logit kernel inside the engine, user-supplied generating terms.',
    'DESIGN.md 3/C05',
)
CLAIMED['C06'] = (
    'homogeneity-degree typing of the generating function, sympy normal-form comparison of scaled (mu:=1) and unscaled term templates, nullability of log arguments, CFG dominance for the legacy-syntax conversion (ast)',
    'Decides: every term of the published nested-logit generating function has degree 1 with one term per nest / per alternative alone, and every published '
    'ln G_i has degree 0 (necessary for G_i to be the partial derivatives of G); the per-alternative term of each scaled builder with mu:=1 equals the unscaled '
    'one in sympy normal form; legacy tuples are converted by cls(*tuple) with the documented field order and validated before the nests are used. One known '
    'finding (cnlmu uses log where cnl uses logzero). Not decided: numeric equality of the reduced models.',
    'DESIGN.md 3/C06',
)

NOT_APPLICABLE = {f'C{i:02d}': WIP for i in range(1, 20)}
