#!/usr/bin/env python3
"""Apply every kept seeded change (/verif/seeded/<id>_<k>/patch.diff) to /repo, run the quick check of its
property, undo the change, and record the outcome in meta.json and in seeded/SUMMARY.md.  (run with python3-vt)"""
import json, os, subprocess, sys, glob, re
V = os.path.dirname(os.path.dirname(os.path.abspath(__file__)))
rows = []
if subprocess.run(['git', '-C', '/repo', 'diff', '--quiet']).returncode != 0:
    sys.exit('/repo has uncommitted changes')
for d in sorted([d_ for d_ in glob.glob(os.path.join(V, 'seeded', '*_*')) if os.path.isdir(d_)]):
    meta_p = os.path.join(d, 'meta.json')
    meta = json.load(open(meta_p))
    prop = meta['property']
    patch = os.path.join(d, 'patch.diff')
    if len(sys.argv) > 1 and not d.endswith(tuple(sys.argv[1:])) and 'check_exit_with_change' in meta:  # only the named suffixes are re-run; the others keep their recorded outcome
        rows.append((os.path.basename(d), prop, meta['check_exit_with_change'], ', '.join(meta.get('reported_by_rules', [])) or '-'))
        continue
    ap = subprocess.run(['git', '-C', '/repo', 'apply', patch], capture_output=True, text=True)
    if ap.returncode != 0:
        meta['check_on_current_tree'] = 'patch does not apply to the current /repo: ' + ap.stderr.strip()[:200]
        rows.append((os.path.basename(d), prop, 'n/a', meta['check_on_current_tree']))
    else:
        try:
            r = subprocess.run(['python3-vt', os.path.join(V, 'check.py'), prop, '--no-evidence'], capture_output=True, text=True, cwd=V)
        finally:
            subprocess.run(['git', '-C', '/repo', 'checkout', '--', '.'])
        viol = [l for l in r.stdout.splitlines() if re.match(r'^src/.*\[C\d\d\.', l)]
        rules = sorted({re.search(r'\[(C\d\d\.\w+)\]', l).group(1) for l in viol})
        meta['check_exit_with_change'] = r.returncode
        meta['reported_by_rules'] = rules
        meta['first_report'] = viol[0][:300] if viol else ''
        rows.append((os.path.basename(d), prop, r.returncode, ', '.join(rules) or '-'))
    json.dump(meta, open(meta_p, 'w'), indent=1)
with open(os.path.join(V, 'seeded', 'SUMMARY.md'), 'w') as f:
    f.write('# Seeded changes and what the checks say about them\n\n| seed | property | exit of quick check with the change applied | rules that report it |\n|---|---|---|---|\n')
    for r in rows:
        f.write(f'| {r[0]} | {r[1]} | {r[2]} | {r[3]} |\n')
det = sum(1 for r in rows if r[2] == 1)
print(f'{det}/{len(rows)} seeded changes reported (exit 1)')
for r in rows:
    if r[2] != 1:
        print('NOT REPORTED:', r)
