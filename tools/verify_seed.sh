#!/bin/bash
# verify_seed.sh <PID> <k> : confirm a seeded change in its scratch worktree /tmp/wt/<PID>
# (patch applies, demo fails with it / passes without, baseline tests still pass), then store it under /verif/seeded/<PID>_<k>/
set -u
PID=$1; K=$2; WT=${WTROOT:-/tmp/wt}/$PID; S=$WT/SEED/$K; OUT=/verif/seeded/${PID}_${OUTK:-$K}
cd $WT || exit 2
git checkout -q -- src || exit 2
python_() { PYTHONPATH=$WT/src timeout 600 /venv/bin/python "$@"; }
python_ $S/demo.py > $S/demo_clean.log 2>&1; CLEAN=$?
git apply $S/patch.diff || { echo "patch does not apply"; exit 2; }
python_ $S/demo.py > $S/demo_seeded.log 2>&1; SEEDED=$?
PYTHONPATH=$WT/src timeout 1500 /venv/bin/python -m pytest -q -p no:cacheprovider --timeout=900 --continue-on-collection-errors --junitxml=$S/junit.xml tests > $S/pytest.log 2>&1
python3-vt /verif/tools/check_baseline.py $S/junit.xml > $S/baseline.txt 2>&1; BASE=$?
git checkout -q -- src
rm -f $WT/__*.iter $WT/*.html $WT/*.pickle 2>/dev/null
mkdir -p $OUT
cp $S/patch.diff $S/demo.py $OUT/
[ -f $S/notes.md ] && cp $S/notes.md $OUT/
SUMMARY=$(tail -1 $S/pytest.log | tr -d '=' | sed 's/^ *//')
python3-vt - <<PY
import json
json.dump({
 "property": "$PID", "seed": int("$K"),
 "demo_exit_clean_tree": $CLEAN, "demo_exit_with_change": $SEEDED,
 "baseline_tests_still_pass": $BASE == 0, "pytest_summary_with_change": """$SUMMARY""",
 "what_i_ran": "tools/verify_seed.sh $PID $K in the scratch worktree $WT: demo on the clean tree, git apply patch.diff, demo again, full baseline suite (junit compared with BASELINE.json stable_pass), git checkout",
 "valid": $CLEAN == 0 and $SEEDED == 1 and $BASE == 0,
}, open("$OUT/meta.json","w"), indent=1)
PY
echo "$PID/$K clean=$CLEAN seeded=$SEEDED baseline_ok=$BASE :: $SUMMARY"
