#!/bin/bash
# robust.sh <PROP>: clean tree, local-rename variant, self-test summary
P=$1
echo "--- clean"; python3-vt check.py $P --no-evidence 2>&1 | grep -E "^src/|ANALYSIS|violation\(s\)" | cut -c1-220
echo "--- renamed locals"; python3-vt check.py $P --no-evidence --repo /tmp/variant_rn 2>&1 | grep -E "^src/|ANALYSIS|violation\(s\)" | cut -c1-260
echo "--- selftest"; python3-vt check.py $P --tier thorough --no-evidence 2>&1 | grep -iE "self-test|SELFTEST"
