#!/usr/bin/env python3
"""Regenerate /verif/MANIFEST.json from the table below (run with python3-vt)."""
import json
import os
import sys

HERE = os.path.dirname(os.path.dirname(os.path.abspath(__file__)))
sys.path.insert(0, HERE)

NOTE = (
    'Static analysis of source text only: /repo is parsed afresh on every run, never imported or executed. '
    'Trusted: CPython ast; the frozen reader tables in /verif/sa (engine record grammar and API read off the '
    'shipped cythonbiogeme sources, Python operator table, AS241 coefficients) ; the external compiled engine, '
    'numpy, pandas, scipy behave as documented. Decides the structural clauses listed in DESIGN.md for this '
    'property (necessary conditions), not the numeric behaviour.'
)

#: property -> (technique, level text, design ref)
CLAIMED = {}
#: property -> reason
NOT_APPLICABLE = {}

from tools.manifest_table import CLAIMED as C, NOT_APPLICABLE as N  # noqa: E402

CLAIMED.update(C)
NOT_APPLICABLE.update(N)

ids = [json.loads(l)['id'] for l in open(os.path.join(HERE, 'properties.jsonl'))]
checks = []
for pid in ids:
    if pid not in CLAIMED:
        continue
    technique, text, ref = CLAIMED[pid]
    checks.append(
        {
            'property_id': pid,
            'quick_cmd': f'python3-vt check.py {pid} --tier quick',
            'thorough_cmd': f'python3-vt check.py {pid} --tier thorough',
            'evidence_file': f'/verif/evidence/{pid}.json',
            'replay_cmd_template': f'python3-vt check.py {pid} --replay {{path}}',
            'engine': 'sa',
            'level_claimed': {'category': 'other', 'text': text, 'design_ref': ref},
            'level_note': NOTE,
            'technique': technique,
        }
    )
na = [{'property_id': p, 'reason': NOT_APPLICABLE[p]} for p in ids if p not in CLAIMED]
missing = [p for p in ids if p not in CLAIMED and p not in NOT_APPLICABLE]
assert not missing, missing
manifest = {
    'version': 1,
    'setup_cmd': 'python3-vt -c "import ast, networkx, sympy, jsonschema; print(\'static-analysis tooling present\')"',
    'hooks': {
        'guard': 'BIOGEME_VERIF',
        'enable': 'no hook exists: the checks only read source text, nothing in /repo is instrumented',
        'baseline_off_cmd': 'cd /repo && /venv/bin/python -m pytest -ra -q -p no:cacheprovider --timeout=900 --continue-on-collection-errors',
        'source_commits': [],
        'add_only': True,
    },
    'engines': [
        {
            'name': 'sa',
            'path': '/verif/sa',
            'serves_properties': [c['property_id'] for c in checks],
            'kind_free_text': 'repository-specific static analysis on Python ast: program model (import map, C3 MRO, '
            'resolved members, call resolution), statement CFG with dominators and reaching definitions (networkx), '
            'table/sibling/order/flow/sort/degree/formula rules; sympy only as an expression normaliser',
        }
    ],
    'checks': checks,
    'not_applicable': na,
    'notes': 'Exit codes of every command: 0 holds (KNOWN-FINDING lines allowed), 1 VIOLATION, 2 ANALYSIS-ERROR (anchor vanished / '
    'idiom not recognised: the analysis refuses to vouch, never a silent pass). Known findings: /verif/known_findings.json. '
    'A VIOLATION is printed only for an obligation whose rule identified something that contradicts the property; a function rewritten in a shape '
    'the rule does not know is answered by exit 2 (not recognised), never by a VIOLATION: a failed obligation is a VIOLATION only where the rule '
    'names the contradiction (DESIGN.md 7.12, 7.14). '
    'Thorough tier = quick tier + in-memory variant matrix: the property\'s own mutants, the confirmed breaking changes of /verif/seeded for that property, '
    'every committed behaviour-preserving rewrite of /verif/refactorings that touches a file of the property, and 20 whole-package behaviour-preserving '
    'variants; it takes 2-10 minutes on 16 cores. tools/score.py replays all 684 refactorings and all 180 seeded changes against all twenty properties (19 minutes; `--props` restricts it to the rule sets that changed).',
}
with open(os.path.join(HERE, 'MANIFEST.json'), 'w') as f:
    json.dump(manifest, f, indent=1)
import jsonschema

jsonschema.validate(manifest, json.load(open('/root/.vp/MANIFEST.schema.json')))
print('MANIFEST.json written:', len(checks), 'claimed,', len(na), 'not claimed')
