#!/bin/bash
# verify_round2.sh <PID>...: confirm both round-2 changes of each property (worktrees under /tmp/wt2), store them as seeded/<PID>_3 and _4
for P in "$@"; do
  ( WTROOT=/tmp/wt2 OUTK=3 /verif/tools/verify_seed.sh $P 1; WTROOT=/tmp/wt2 OUTK=4 /verif/tools/verify_seed.sh $P 2 ) > /tmp/wt2/verify_$P.log 2>&1 &
done
wait
for P in "$@"; do cat /tmp/wt2/verify_$P.log; done
