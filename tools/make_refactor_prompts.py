#!/usr/bin/env python3
"""make_refactor_prompts.py <root> [flavour]: writes <root>/prompts/<ID>.txt, the task text given to the sub-agents that write
behaviour-preserving refactorings (one agent per property, each in its own scratch worktree <root>/<ID>; the agents see the text
of the property and nothing of /verif).  Kept for the record of how /verif/refactorings was produced."""
import os
import sys
ROOT = sys.argv[1] if len(sys.argv) > 1 else '/tmp/wt4'
FLAVOUR = sys.argv[2] if len(sys.argv) > 2 else 'moderate'
os.makedirs(f'{ROOT}/prompts', exist_ok=True)
import json
props={json.loads(l)['id']:json.loads(l) for l in open('/verif/properties.jsonl')}
# refactor prompts: regenerate from the same template as round 1 (kept in git history? rebuild here)
for pid,p in props.items():
    W=f'{ROOT}/{pid}'
    mech='\n'.join(f"   - {m['name']}: {m['where']}" for m in p['anchors']['mechanism'])
    t=f"""You are helping to evaluate a verification effort for the Python library biogeme (discrete choice models; an expression DSL evaluated by an external compiled engine, cythonbiogeme). Your job is to play the role of a careful maintainer who REFACTORS code WITHOUT changing its behaviour.

You have your own scratch git worktree of the library at {W} (sources in {W}/src/biogeme, tests in {W}/tests). Work ONLY inside {W}. Never modify or read anything under /repo or /verif (they are off limits; do not even list them). NEVER use `git stash` (the stash is shared with other people's worktrees of this repository); to undo an edit use `git -C {W} checkout -- src`.

The property whose implementation you will refactor ({pid} - {p['title']}):

STATEMENT: {p['statement']}

FILES WHERE THE MECHANISMS LIVE: {', '.join(p['anchors']['files'])}
MECHANISMS:
{mech}

TASK. Produce FOUR independent, behaviour-preserving refactorings, each touching the body of one or two of the functions / methods that implement the mechanisms above (choose four DIFFERENT functions, and prefer the functions named above or their direct helpers; at least two of the four must be among the functions named above). Each refactoring must:
 1. leave the behaviour of the library exactly unchanged for ALL inputs, call sequences and configurations (not only for the tested ones) - the property above must hold after the edit exactly as before; public names, signatures, attribute names, file formats, messages and types of exceptions, and the order of side effects must stay the same;
 2. still import, and keep every currently passing test passing;
 3. be the kind of edit a maintainer really makes during clean-up, of moderate size (3-40 changed lines). Use a DIFFERENT kind of edit for each of the four, chosen among for example: extract a private helper function or method and call it; inline a helper or a temporary variable; replace an explicit loop by a comprehension / generator or the reverse; restructure conditionals (early return instead of else, merge or split nested ifs, De Morgan, swap branches of an if/else with the negated test); replace index loops by enumerate / zip or the reverse; introduce or remove intermediate variables and rename locals; change string building (f-string vs format vs concatenation) of messages; reorder statements that do not depend on each other; use keyword arguments instead of positional ones or the reverse in internal calls; use `with` / context managers equivalently; add type hints, assertions that cannot fail, comments, docstrings or logging calls; replace a literal repeated several times by a module constant; split a long expression into named parts or merge parts into one expression; replace `x = x + y` by `x += y` for numbers; use a dict / tuple unpacking idiom.
 Do NOT fix bugs, do NOT change numerical formulas' meaning, do NOT change which exceptions are raised or when. If you are not certain an edit is behaviour-preserving for all inputs, choose another edit.

For each refactoring k in {{1,2,3,4}} deliver a directory {W}/REFACTOR/k/ containing:
 - patch.diff : output of `git -C {W} diff -- src` with ONLY that refactoring applied (so that `git apply patch.diff` on a clean checkout reproduces it);
 - notes.md   : 5-12 lines: which function(s), what kind of edit, and the argument why behaviour is unchanged for all inputs (mention any subtle point you checked: evaluation order, aliasing, exceptions, iteration order, None / 0 / empty cases).

How to check requirement 2: run the whole test-suite from the worktree root with the change applied (about 3-6 minutes; do NOT use -x):
   cd {W} && PYTHONPATH={W}/src /venv/bin/python -m pytest -q -p no:cacheprovider --timeout=900 tests 2>&1 | tail -3
IMPORTANT: on the UNCHANGED tree exactly 415 tests pass and 61 fail (all 61 with `ValueError: Comment cannot contain line breaks` raised by tomlkit - an environment issue, ignore them). With your change the summary must still read `61 failed, 415 passed`. To save time run the full suite ONCE with all four refactorings applied together, provided you also ran the directly related test files after each one; if the combined run shows a difference, find the culprit. (The PYTHONPATH makes the worktree's sources win over the installed copy; always use /venv/bin/python.) Tests may leave `__*.iter` and similar files in the worktree; that is fine.

Work method: read the relevant source first; pick four functions; for each: apply the edit, run the related tests, save patch.diff (of that edit alone), then `git -C {W} checkout -- src` before starting the next one. Leave the worktree clean at the end (only the untracked REFACTOR/ directory remains).

Final answer: for each refactoring one short paragraph: file/function changed, kind of edit, why behaviour is unchanged, and the pytest summary line you observed. If you could only produce fewer than four, say so plainly.
"""
    if FLAVOUR == 'compound':
        a = t.index(' 3. be the kind of edit')
        b = t.index(' Do NOT fix bugs')
        t = t[:a] + ''' 3. be a COMPOUND clean-up of one function (or of one function and its private helpers) of the kind a maintainer makes when a function has become hard to read, 15-80 changed lines, combining at least three kinds of edit in the same function, for example: split the function into two or three private helpers (with parameters and return values, possibly with default arguments) and call them; turn flag variables and nested conditionals into guard clauses / early returns or the reverse; replace accumulate-in-a-loop code by comprehensions, `sum`, `any`, `all`, `dict(zip(...))`, `enumerate`, `itertools` or the reverse; cache a repeated sub-expression in a local (only where the repeated evaluation has no side effect and cannot change in between); rename all locals to more telling names; reorder independent statements; rebuild messages with another string-building idiom; replace tuple indexing by unpacking; replace an if/elif chain on a value by a dict lookup or the reverse; move a computation closer to its only use; replace a while loop by a for loop or the reverse where equivalent. Each of the four refactorings must use a different main idea.
''' + t[b:]
    open(f'{ROOT}/prompts/{pid}.txt','w').write(t)
