#!/usr/bin/env python3
"""make_seed_prompts.py: write /tmp/wt/prompts/<PID>.txt, the brief given to an independent sub-agent that is asked for a
breaking change of property <PID> in its own scratch worktree /tmp/wt/<PID>.  The brief contains only the text of the property
(nothing from /verif's rules, seeds or reports).  Round 9 (one change per agent)."""
import json
import os

props = {json.loads(l)['id']: json.loads(l) for l in open('/verif/properties.jsonl')}
os.makedirs('/tmp/wt/prompts', exist_ok=True)
T = '''You are helping to evaluate a verification effort for the Python library biogeme (discrete choice models; an expression DSL evaluated by an external compiled engine, cythonbiogeme). Your job is to play the role of a developer who introduces a *subtle regression*.

You have your own scratch git worktree of the library at {wt} (sources in {wt}/src/biogeme, tests in {wt}/tests). Work ONLY inside {wt}. Never modify or read anything under /repo or /verif (they are off limits; do not even list them). Never use `git stash` (the stash stack is shared with other people's worktrees).

The property under study ({pid} - {title}):

STATEMENT: {statement}

QUANTIFIED OVER: {quant}

WHY TESTS CANNOT SETTLE IT: {why}

FILES WHERE THE MECHANISMS LIVE: {files}

TASK. Produce ONE change to the library source under {wt}/src/biogeme which:
 1. breaks the property above (for some input / sequence of operations / configuration), and
 2. still imports/compiles, and does not make any currently passing test fail, and
 3. needs something *specific* to manifest - an unusual input (e.g. non-alphabetical parameter names, integer labels that are not 0..n-1, a non-default option, a nested or reflected operator, gaps in an index, a second call on the same object, a particular interleaving or crash point, a multi-step sequence of operations, two cooperating sites that each look fine alone ...) - NOT something ordinary use would expose at once. Realistic slips (copy-paste of a sibling, swapped arguments, wrong index table, off-by-one, a dropped guard, stale attribute, wrong variant forwarded, a cache not invalidated, an "optimisation" that is valid only in the common case) are preferred over contrived sabotage. Keep the change small (1-10 lines). Prefer a site that is NOT the first, most obvious function one would think of for this property: look at the secondary mechanisms, helper functions, less-travelled branches and sibling implementations named in the files above, and a change written the way a maintainer would naturally write it (it may restructure a few lines rather than flip a single token).

Deliver a directory {wt}/SEED/1/ containing:
 - patch.diff : output of `git -C {wt} diff -- src` with ONLY that change applied (so that `git apply patch.diff` on a clean checkout reproduces it);
 - demo.py    : a small stand-alone program that exits 0 when the property holds and exits 1 (printing what differs) when it is violated. It must exit 1 with your change and exit 0 on the unchanged tree. Run it as `cd {wt} && PYTHONPATH={wt}/src /venv/bin/python SEED/1/demo.py` (the PYTHONPATH makes the worktree's sources win over the installed copy; always use /venv/bin/python). Keep the demo fast (< 60 s) and deterministic. Prefer using the pure library API (expressions, Database, models, results, ...). NOTE: constructing `biogeme.biogeme.BIOGEME(...)` works only when the current directory contains the tracked file biogeme.toml (the worktree root does) - otherwise it fails with a tomlkit error; run demos from {wt}.
 - notes.md   : 5-15 lines: which clause of the property is broken, what is needed for it to manifest, why the existing tests do not notice.

How to check requirement 2: run the test-suite from the worktree root with the change applied:
   cd {wt} && PYTHONPATH={wt}/src /venv/bin/python -m pytest -q -p no:cacheprovider --timeout=900 tests 2>&1 | tail -3
IMPORTANT: on the UNCHANGED tree exactly 415 tests pass and 61 fail (all 61 with `ValueError: Comment cannot contain line breaks` from tomlkit - an environment issue, ignore them; because of them do not use -x, run the whole suite: it takes about 3 minutes). With your change the summary must still read `61 failed, 415 passed`. You may first run only the test files related to what you touched, but run the whole suite once at the end. Tests may leave `__*.iter` and similar files in the worktree; that is fine.

Work method: read the relevant source first; pick the site; apply the edit, write the demo, confirm demo exits 1, run the suite, save patch.diff, then `git -C {wt} checkout -- src` and confirm the demo exits 0 on the clean tree. Leave the worktree clean at the end (only the untracked SEED/ directory remains). Be quick: aim to finish within 20 minutes; do not polish.

Final answer: one paragraph: file/function changed, what it breaks, what is needed to manifest, the pytest summary line you observed with the change, and demo exit codes with/without the change. If you could not produce a valid change, say so plainly.'''
for pid, p in props.items():
    wt = f'/tmp/wt/{pid}'
    open(f'/tmp/wt/prompts/{pid}.txt', 'w').write(T.format(wt=wt, pid=pid, title=p['title'], statement=p['statement'], quant=p['quantifier']['text'], why=p['why_tests_cant'], files=', '.join(p['anchors']['files'])))
print('written', len(props))
