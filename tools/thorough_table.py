#!/usr/bin/env python3
"""thorough_table.py: the markdown table of the thorough tier (DESIGN.md 7.14 / 7.15) from /verif/evidence/*.json."""
import glob
import json
import os

HERE = os.path.dirname(os.path.dirname(os.path.abspath(__file__)))
print('| property | tier | breaks reported as VIOLATION | refused (exit 2) | silent on a break | neutral variants silent | refused (exit 2) | false VIOLATION |')
print('|---|---|---|---|---|---|---|---|')
tot = [0] * 6
for f in sorted(glob.glob(os.path.join(HERE, 'evidence', 'C*.json'))):
    j = json.load(open(f))
    st = j['coverage'].get('selftest')
    if not st:
        print(f"| {j['property_id']} | {j['tier']} | - | - | - | - | - | - |")
        continue
    n = lambda v: len(v) if isinstance(v, (list, dict)) else v  # noqa: E731
    row = [n(st[k]) for k in ('reported', 'seeded_breaks', 'refused_exit_2', 'survived', 'silent', 'behaviour_preserving_variants', 'behaviour_preserving_refused_exit_2', 'false_alarms')]
    print(f"| {j['property_id']} | {j['tier']} | {row[0]}/{row[1]} | {row[2]} | {row[3]} | {row[4]}/{row[5]} | {row[6]} | {row[7]} |")
    for i, k in enumerate([0, 1, 3, 4, 5, 7]):
        tot[i] += row[k]
print(f'\ntotal: {tot[0]} of {tot[1]} breaking variants reported, {tot[2]} silent; {tot[3]} of {tot[4]} neutral variants silent, {tot[5]} false VIOLATION')
