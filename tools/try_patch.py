#!/usr/bin/env python3
"""try_patch.py <patch.diff>... : apply each unified diff to the sources of /repo IN MEMORY and run the rules of all twenty
properties on the result.  Prints, per patch, the obligations that fail with the patch and do not fail on the current tree
(or the analysis error).  Nothing is written to /repo.  Used to measure false alarms on behaviour-preserving refactorings
and reports on breaking changes.  (run with python3-vt)"""
import importlib
import os
import sys
from concurrent.futures import ProcessPoolExecutor

HERE = os.path.dirname(os.path.dirname(os.path.abspath(__file__)))
sys.path.insert(0, HERE)
from sa.core import AnalysisError, Program  # noqa: E402
from sa.report import Ctx  # noqa: E402
from sa.selftest import apply_edits, patch_edits  # noqa: E402

PROPS = [f'C{i:02d}' for i in range(1, 21)]
_BASE = None


def apply(prog, patch_text):
    srcs, why = apply_edits(prog.sources, patch_edits(patch_text))
    if srcs is None:
        return None, why
    return Program(srcs), None


def failing(prog, prop):
    mod = importlib.import_module(f'sa.rules.{prop.lower()}')
    ctx = Ctx(prog, prop, 'quick')
    try:
        mod.run(ctx)
    except AnalysisError as e:
        return None, f'ANALYSIS-ERROR {e}'
    except Exception as e:  # noqa
        return None, f'CHECKER-ERROR {e!r}'
    return {o.key: o for o in ctx.obligations if not o.ok}, None  # violated and not-recognised alike; told apart by .recognised


def work(args):
    patch_path, prop = args
    prog = Program.from_repo('/repo')
    base, err = failing(prog, prop)
    if err:
        return patch_path, prop, [f'baseline: {err}']
    v, err = apply(prog, open(patch_path, encoding='utf-8').read())
    if v is None:
        return patch_path, prop, [f'PATCH: {err}']
    got, err = failing(v, prop)
    if err:
        return patch_path, prop, [err[:300]]
    return patch_path, prop, [('' if o.recognised else 'NOT-RECOGNISED ') + f'{o.file}:{o.line}: [{o.rule}] {o.construct}: {o.message[:200]}' for k, o in got.items() if k not in base]


def main():
    patches = [a for a in sys.argv[1:] if not a.startswith('C') or os.path.exists(a)]
    props = [a for a in sys.argv[1:] if a in PROPS] or PROPS
    jobs = [(p, prop) for p in patches for prop in props]
    out = {}
    with ProcessPoolExecutor(max_workers=min(16, len(jobs))) as ex:
        for patch_path, prop, lines in ex.map(work, jobs, chunksize=2):
            out.setdefault(patch_path, {})[prop] = lines
    n_alarm = 0
    for p in patches:
        bad = {k: v for k, v in out[p].items() if v}
        if bad:
            n_alarm += 1
        print(f'== {p}: ' + ('silent on all ' + str(len(props)) + ' properties' if not bad else 'REPORTED by ' + ', '.join(sorted(bad))))
        for k, v in sorted(bad.items()):
            for line in v[:4]:
                print(f'   {k}: {line}')
    print(f'{n_alarm}/{len(patches)} patches reported')


if __name__ == '__main__':
    main()
