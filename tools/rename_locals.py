#!/usr/bin/env python3
"""Behaviour-preserving variant generator: rename every local variable (assigned names, loop and comprehension
variables, with-targets; not parameters, globals, attributes) of every function under src/biogeme by appending a suffix.
Writes the variant tree to <out>/src/biogeme.  Used to measure false alarms of the checks (python3-vt)."""
import ast, os, sys, symtable

def locals_of(fn: ast.FunctionDef) -> set[str]:
    params = {a.arg for a in fn.args.posonlyargs + fn.args.args + fn.args.kwonlyargs}
    if fn.args.vararg: params.add(fn.args.vararg.arg)
    if fn.args.kwarg: params.add(fn.args.kwarg.arg)
    out = set()
    glob = set()
    def walk(n):
        for ch in ast.iter_child_nodes(n):
            if isinstance(ch, (ast.FunctionDef, ast.AsyncFunctionDef, ast.ClassDef, ast.Lambda)):
                if isinstance(ch, (ast.FunctionDef, ast.ClassDef)):
                    pass
                continue
            if isinstance(ch, (ast.Global, ast.Nonlocal)):
                glob.update(ch.names)
            if isinstance(ch, ast.Name) and isinstance(ch.ctx, ast.Store):
                out.add(ch.id)
            walk(ch)
    walk(fn)
    return {x for x in out - params - glob if not x.startswith('__')}

class R(ast.NodeTransformer):
    def __init__(self, suffix): self.suffix = suffix; self.stack = []
    def visit_FunctionDef(self, node):
        loc = locals_of(node)
        # names of nested functions that are called stay (they are bound by def, not by Store)
        self.stack.append(loc)
        self.generic_visit(node)
        self.stack.pop()
        return node
    def visit_Name(self, node):
        for loc in reversed(self.stack):
            if node.id in loc:
                node.id = node.id + self.suffix
                break
        return node
    def visit_ClassDef(self, node):
        saved, self.stack = self.stack, []
        self.generic_visit(node)
        self.stack = saved
        return node
    def visit_Lambda(self, node):
        return node

def main(repo, out, suffix='_rn'):
    root = os.path.join(repo, 'src/biogeme')
    for dp, dn, fn in os.walk(root):
        for f in fn:
            if not f.endswith('.py'): continue
            p = os.path.join(dp, f)
            src = open(p).read()
            try:
                t = ast.parse(src)
            except SyntaxError:
                continue
            t = R(suffix).visit(t)
            ast.fix_missing_locations(t)
            q = os.path.join(out, os.path.relpath(p, repo))
            os.makedirs(os.path.dirname(q), exist_ok=True)
            open(q, 'w').write(ast.unparse(t) + '\n')
if __name__ == '__main__':
    main(sys.argv[1], sys.argv[2], *(sys.argv[3:4]))
