#!/bin/bash
# try_seed.sh <patch.diff> <PROP> [more props]: apply a seeded change to /repo, run the quick checks, undo it.
P=$1; shift
cd /repo && git diff --quiet || { echo "/repo is dirty"; exit 2; }
git -C /repo apply "$P" || { echo "patch does not apply"; exit 2; }
for prop in "$@"; do
  out=$(cd /verif && python3-vt check.py $prop --no-evidence 2>&1); rc=$?
  echo "== $prop exit=$rc"; echo "$out" | grep -E "^src/|ANALYSIS-ERROR|violation\(s\)" | head -8
done
git -C /repo checkout -- .
