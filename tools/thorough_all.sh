#!/bin/bash
# thorough_all.sh: the thorough tier of all twenty properties, four at a time (each uses a process pool of its own); prints the last line and the self-test summary of each
cd "$(dirname "$0")/.."
run() { python3-vt check.py $1 --tier thorough > /tmp/thorough_$1.log 2>&1; echo "$1 exit=$? $(grep -c 'SELFTEST-FALSE-ALARM' /tmp/thorough_$1.log) false alarms :: $(tail -1 /tmp/thorough_$1.log)"; }
for grp in "C01 C02 C03 C04" "C05 C06 C07 C08" "C09 C10 C11 C12" "C13 C14 C15 C16" "C17 C18 C19 C20"; do
  for p in $grp; do run $p & done
  wait
done
