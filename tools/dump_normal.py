#!/usr/bin/env python3
"""dump_normal.py <patch.diff|-> <file suffix> <function or Class.method> : the normal form of one function, after applying the patch in memory (reading aid)"""
import ast
import os
import sys

HERE = os.path.dirname(os.path.dirname(os.path.abspath(__file__)))
sys.path.insert(0, HERE)
from sa.core import Program  # noqa: E402
from sa.selftest import apply_edits, patch_edits  # noqa: E402

patch, suffix, name = sys.argv[1:4]
prog = Program.from_repo('/repo')
if patch != '-':
    srcs, why = apply_edits(prog.sources, patch_edits(open(patch).read()))
    assert srcs is not None, why
    prog = Program(srcs)
hits = []
for path, m in prog.by_path.items():
    tree = m.tree
    if not path.endswith(suffix):
        continue
    for n in ast.walk(tree):
        if isinstance(n, ast.ClassDef):
            for m in n.body:
                if isinstance(m, ast.FunctionDef) and f'{n.name}.{m.name}' == name:
                    hits.append(m)
        if isinstance(n, ast.FunctionDef) and n.name == name:
            hits.append(n)
for h in hits[:1]:
    print(ast.unparse(h))
