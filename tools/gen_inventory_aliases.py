#!/usr/bin/env python3
"""gen_inventory_aliases.py: add to sa/inventory.json, for every function of the reference tree (/repo at the pinned commit + fix commits),
the local aliases it contains: `path::qualname::~x=<chain>` for each statement `x = <Name or attribute chain>`.  A local alias that is
not in this list was introduced by a later change and is seen through by the normal form (sa/normal.py, _propagate_new_aliases)."""
import ast
import json
import os
import sys

HERE = os.path.dirname(os.path.dirname(os.path.abspath(__file__)))
sys.path.insert(0, HERE)
from sa.core import load_sources  # noqa: E402
from sa.normal import alias_entries  # noqa: E402

p = os.path.join(HERE, 'sa', 'inventory.json')
inv = [x for x in json.load(open(p)) if '::~' not in x]
extra = set()
for path, src in load_sources('/repo').items():
    extra |= alias_entries(ast.parse(src), path)
json.dump(sorted(set(inv) | extra), open(sys.argv[1] if len(sys.argv) > 1 else p, 'w'), indent=0)
print(len(inv), 'entries kept,', len(extra), 'alias entries')
