#!/usr/bin/env python3
"""score.py [--refactor-dir DIR] [--props C07,C18] [-v]: the two regression suites of the checker, evaluated in memory.

* /verif/refactorings/<ID>_<k>/patch.diff : behaviour-preserving refactorings written by sub-agents.  Every one of the twenty
  rule sets is run on each; wanted outcome: silent.  'refused' = exit 2 (shape not recognised / analysis error), 'ALARM' =
  a violation reported on correct code.
* /verif/seeded/<ID>_<k>/patch.diff : confirmed breaking changes.  The rule set of the property is run; wanted outcome: a
  violation ('reported').  'refused' = exit 2 only, 'MISSED' = silent.
(run with python3-vt; nothing is written to /repo)"""
import glob
import importlib
import os
import sys
from concurrent.futures import ProcessPoolExecutor

HERE = os.path.dirname(os.path.dirname(os.path.abspath(__file__)))
sys.path.insert(0, HERE)
from sa.core import AnalysisError, Program  # noqa: E402
from sa.report import Ctx  # noqa: E402
from sa.selftest import apply_edits, patch_edits  # noqa: E402

PROPS = [f'C{i:02d}' for i in range(1, 21)]
_PROG = None
_BASE = {}


def run_prop(prog, prop):
    mod = importlib.import_module(f'sa.rules.{prop.lower()}')
    ctx = Ctx(prog, prop, 'quick')
    try:
        mod.run(ctx)
    except AnalysisError as e:
        return None, f'ANALYSIS-ERROR {e}'
    except Exception as e:  # noqa
        return None, f'CHECKER-ERROR {e!r}'
    return {o.key: o for o in ctx.obligations if not o.ok}, None


def prog0():
    global _PROG
    if _PROG is None:
        _PROG = Program.from_repo('/repo')
    return _PROG


def base(prop):
    if prop not in _BASE:
        _BASE[prop] = run_prop(prog0(), prop)
    return _BASE[prop]


def work(job):
    patch_path, prop = job
    b, err = base(prop)
    if err:
        return job, 'refused', f'baseline {err}'
    srcs, why = apply_edits(prog0().sources, patch_edits(open(patch_path, encoding='utf-8').read()))
    if srcs is None:
        return job, 'skip', why
    got, err = run_prop(Program(srcs), prop)
    if err:
        return job, 'refused', err[:200]
    new = [o for k, o in got.items() if k not in b]
    viol = [o for o in new if o.recognised]
    if viol:
        return job, 'violation', f'[{viol[0].rule}] {viol[0].construct}: {viol[0].message[:120]}'
    if new:
        return job, 'refused', f'[{new[0].rule}] {new[0].construct}: not recognised'
    return job, 'silent', ''


def main():
    rdir = os.path.join(HERE, 'refactorings')
    if '--refactor-dir' in sys.argv:
        rdir = sys.argv[sys.argv.index('--refactor-dir') + 1]
    refs = sorted(glob.glob(os.path.join(rdir, '*', 'patch.diff'))) + sorted(glob.glob(os.path.join(rdir, '*', 'REFACTOR', '*', 'patch.diff')))
    seeds = sorted(glob.glob(os.path.join(HERE, 'seeded', '*_*', 'patch.diff')))
    if '--props' in sys.argv:  # only the rule sets named (after a change confined to their modules; mind imported rules: C10<->C11, C03<->C12)
        PROPS[:] = sys.argv[sys.argv.index('--props') + 1].split(',')
        seeds = [p for p in seeds if os.path.basename(os.path.dirname(p))[:3] in PROPS]
    jobs = [(p, prop) for p in refs for prop in PROPS] + [(p, os.path.basename(os.path.dirname(p))[:3]) for p in seeds]
    res = {}
    with ProcessPoolExecutor(max_workers=16) as ex:
        for job, outcome, text in ex.map(work, jobs, chunksize=4):
            res[job] = (outcome, text)
    verbose = '-v' in sys.argv
    # refactorings
    tot = {'silent': 0, 'refused': 0, 'ALARM': 0}
    for p in refs:
        outs = {prop: res[(p, prop)] for prop in PROPS}
        worst = 'ALARM' if any(o == 'violation' for o, _ in outs.values()) else 'refused' if any(o in ('refused', 'skip') for o, _ in outs.values()) else 'silent'
        tot[worst] += 1
        if worst != 'silent' or verbose:
            name = os.path.relpath(p, rdir)
            print(f'refactoring {name}: {worst}')
            for prop, (o, t) in outs.items():
                if o in ('violation', 'refused', 'skip'):
                    print(f'     {prop} {o}: {t}')
    print(f'REFACTORINGS {len(refs)}: silent {tot["silent"]}, refused (exit 2) {tot["refused"]}, FALSE ALARM (exit 1) {tot["ALARM"]}')
    st = {'violation': 0, 'refused': 0, 'silent': 0, 'skip': 0}
    for p in seeds:
        prop = os.path.basename(os.path.dirname(p))[:3]
        o, t = res[(p, prop)]
        st[o] += 1
        if o != 'violation' or verbose:
            print(f'seed {os.path.basename(os.path.dirname(p))}: {"MISSED" if o == "silent" else o}: {t}')
    print(f'SEEDED CHANGES {len(seeds)}: reported as violation {st["violation"]}, refused (exit 2) {st["refused"]}, MISSED {st["silent"]}, skipped {st["skip"]}')


if __name__ == '__main__':
    main()
