#!/usr/bin/env python3
"""print a python file without docstrings/blank lines/comments, keeping line numbers (reading aid)"""
import ast, sys
p = sys.argv[1]
lo = int(sys.argv[2]) if len(sys.argv) > 2 else 1
hi = int(sys.argv[3]) if len(sys.argv) > 3 else 10**9
src = open(p).read()
t = ast.parse(src)
skip = set()
for n in ast.walk(t):
    if isinstance(n, (ast.FunctionDef, ast.ClassDef, ast.Module, ast.AsyncFunctionDef)):
        b = n.body
        if b and isinstance(b[0], ast.Expr) and isinstance(b[0].value, ast.Constant) and isinstance(b[0].value.value, str):
            skip.update(range(b[0].lineno, b[0].end_lineno + 1))
    if isinstance(n, ast.Expr) and isinstance(n.value, ast.Constant) and isinstance(n.value.value, str):
        skip.update(range(n.lineno, n.end_lineno + 1))
for i, l in enumerate(src.split('\n'), 1):
    if i < lo or i > hi or i in skip or not l.strip() or l.strip().startswith('#'):
        continue
    print(f'{i}:{l}')
