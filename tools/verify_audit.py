#!/usr/bin/env python3
"""verify_audit.py <hits file> <scratch root>: for every audit patch listed (lines `<PROP> <name>...`), apply it alone in a scratch worktree of /repo,
run the baseline suite, compare with BASELINE.json (tools/check_baseline.py), undo.  Writes <scratch root>/results.txt.  Worktrees are removed at the end."""
import os
import subprocess
import sys
from concurrent.futures import ThreadPoolExecutor
from queue import Queue

hits, root = sys.argv[1], sys.argv[2]
jobs = []
for line in open(hits):
    p, *names = line.split()
    jobs += [(p, n) for n in names]
N = 12
os.makedirs(root, exist_ok=True)
free = Queue()
for i in range(N):
    w = f'{root}/w{i}'
    subprocess.run(['git', '-C', '/repo', 'worktree', 'add', '--detach', '-f', w], capture_output=True)
    free.put(w)


def run(job):
    p, n = job
    w = free.get()
    try:
        patch = f'{os.environ.get("AUDIT_DIR", "/verif/audit")}/{p}/{n}/patch.diff'
        a = subprocess.run(['git', '-C', w, 'apply', patch], capture_output=True, text=True)
        if a.returncode:
            return f'{p}/{n} DOES-NOT-APPLY {a.stderr[:100]!r}'
        out = f'{root}/{p}_{n}'
        os.makedirs(out, exist_ok=True)
        env = dict(os.environ, PYTHONPATH=f'{w}/src')
        with open(f'{out}/pytest.log', 'w') as log:
            subprocess.run(['/venv/bin/python', '-m', 'pytest', '-q', '-p', 'no:cacheprovider', '--timeout=900', '--continue-on-collection-errors', f'--junitxml={out}/junit.xml', 'tests'],
                           cwd=w, env=env, stdout=log, stderr=subprocess.STDOUT, timeout=2400)
        b = subprocess.run(['python3-vt', '/verif/tools/check_baseline.py', f'{out}/junit.xml'], capture_output=True, text=True)
        tail = open(f'{out}/pytest.log').read().strip().splitlines()[-1].strip('= ')
        return f'{p}/{n} baseline_ok={b.returncode} :: {tail}'
    except Exception as e:  # noqa
        return f'{p}/{n} ERROR {e!r}'
    finally:
        subprocess.run(['git', '-C', w, 'checkout', '-q', '--', '.'])
        subprocess.run('rm -f __*.iter *.pickle *.html', shell=True, cwd=w)
        free.put(w)


with ThreadPoolExecutor(N) as ex, open(f'{root}/results.txt', 'w') as res:
    for r in ex.map(run, jobs):
        print(r, flush=True)
        res.write(r + '\n')
        res.flush()
for i in range(N):
    subprocess.run(['git', '-C', '/repo', 'worktree', 'remove', '--force', f'{root}/w{i}'], capture_output=True)
subprocess.run(['git', '-C', '/repo', 'worktree', 'prune'])
