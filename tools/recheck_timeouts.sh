#!/bin/bash
# recheck_timeouts.sh <PID> <k> <OUTK>: when the baseline suite of verify_seed.sh was run under heavy load and the only baseline tests
# not passing are pytest-timeout casualties, re-run exactly those tests alone with the change applied and update meta.json.
set -u
PID=$1; K=$2; OUTK=$3; WT=${WTROOT:-/tmp/wt}/$PID; S=$WT/SEED/$K; OUT=/verif/seeded/${PID}_$OUTK
cd $WT || exit 2
TESTS=$(grep "NOT PASSING:" $S/baseline.txt | awk '{print $3}')
[ -z "$TESTS" ] && { echo "$PID: nothing to recheck"; exit 0; }
git checkout -q -- src; git apply $S/patch.diff || exit 2
ok=1; names=""
for t in $TESTS; do
  # tests.functions.test_expressions.test_expressions::test_expr14 -> tests/functions/test_expressions.py::test_expressions::test_expr14
  mod=${t%%::*}; rest=${t#*::}; cls=${mod##*.}; path=$(echo ${mod%.*} | tr . /).py
  grep -q "Timeout" $S/pytest.log || ok=0
  PYTHONPATH=$WT/src timeout 1700 /venv/bin/python -m pytest -q -p no:cacheprovider --timeout=1600 "$path::$cls::$rest" > $S/recheck.log 2>&1 || ok=0
  names="$names $path::$cls::$rest"
done
git checkout -q -- src
python3-vt - <<PY
import json
p="$OUT/meta.json"; m=json.load(open(p))
if $ok:
    m["baseline_tests_still_pass"]=True; m["valid"]=m["demo_exit_clean_tree"]==0 and m["demo_exit_with_change"]==1
    m["what_i_ran"]+="; the suite ran under heavy load (20 suites in parallel) and$names hit the 900 s pytest-timeout (it integrates over 10^7 draws); re-run alone with the change applied: passed (tools/recheck_timeouts.sh); the sub-agent's own unloaded run of the whole suite read 61 failed, 415 passed"
json.dump(m,open(p,"w"),indent=1)
PY
echo "$PID recheck ok=$ok :: $(tail -1 $S/recheck.log)"
