import ast, sympy as sp
src=open('/repo/src/biogeme/results.py').read()
t=ast.parse(src)
cls=[c for c in t.body if isinstance(c,ast.ClassDef) and c.name=='bioResults'][0]
fn=[m for m in cls.body if isinstance(m,ast.FunctionDef) and m.name=='_calculate_stats'][0]
SYM={'self.data.logLike':'L','self.data.initLogLike':'L0','self.data.nullLogLike':'Ln','self.data.nparam':'K','self.data.sampleSize':'N','self.data.numberOfObservations':'Nobs'}
def tr(n):
    if isinstance(n,ast.IfExp): return tr(n.body)          # guard "X if cond else None": take the non-None arm
    if isinstance(n,ast.Constant): return sp.nsimplify(n.value)
    if isinstance(n,ast.UnaryOp) and isinstance(n.op,ast.USub): return -tr(n.operand)
    if isinstance(n,ast.BinOp):
        a,b=tr(n.left),tr(n.right)
        return {'Add':a+b,'Sub':a-b,'Mult':a*b,'Div':a/b,'Pow':a**b}[type(n.op).__name__]
    if isinstance(n,ast.Call):
        f=ast.unparse(n.func)
        if f=='np.nan_to_num': return tr(n.args[0])
        if f=='np.log': return sp.log(tr(n.args[0]))
        raise ValueError(f)
    s=ast.unparse(n)
    if s in SYM: return sp.Symbol(SYM[s])
    raise ValueError(s)
L,L0,Ln,K,N=sp.symbols('L L0 Ln K N')
SPEC={'likelihoodRatioTestNull':-2*(Ln-L),'likelihoodRatioTest':-2*(L0-L),'rhoSquare':1-L/L0,'rhoSquareNull':1-L/Ln,'rhoBarSquare':1-(L-K)/L0,'rhoBarSquareNull':1-(L-K)/Ln,'akaike':2*K-2*L,'bayesian':-2*L+K*sp.log(N)}
for n in ast.walk(fn):
    if isinstance(n,ast.Assign) and isinstance(n.targets[0],ast.Attribute):
        name=n.targets[0].attr
        if name in SPEC:
            e=tr(n.value); print(name, e, sp.simplify(e-SPEC[name])==0)
