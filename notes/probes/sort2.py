import ast,os,re
root='/repo/src/biogeme/mdcev'
LABEL_NAMES={'the_id','alt_id','alternative_id','alternative','candidate_alternative','candidate_alternative_id','key','last_chosen_alternative','k'}
LABEL_ATTRS={'outside_good_key'}
POS_NAMES={'index'}
POS_ATTRS={'outside_good_index'}
POS_CONT={'epsilon','consumptions','x','bounds','initial_guess'}
LAB_CONT_ATTR={'baseline_utilities','gamma_parameters','alpha_parameters','prices','key_to_index'}
LAB_CONT={'the_unsorted_w','optimal_consumption','brute_force','analytical','estimate_optimal_consumption_candidate'}
def sort_of(n):
    if isinstance(n,ast.Name):
        if n.id in LABEL_NAMES: return 'L'
        if n.id in POS_NAMES: return 'P'
    if isinstance(n,ast.Attribute):
        if n.attr in LABEL_ATTRS: return 'L'
        if n.attr in POS_ATTRS: return 'P'
    if isinstance(n,ast.Subscript):
        b=n.value
        if isinstance(b,ast.Attribute) and b.attr=='key_to_index': return 'P'
        if isinstance(b,ast.Attribute) and b.attr=='index_to_key': return 'L'
    if isinstance(n,ast.Constant) and isinstance(n.value,int): return 'C'
    return None
for f in sorted(os.listdir(root)):
    if not f.endswith('.py'): continue
    t=ast.parse(open(os.path.join(root,f)).read())
    for n in ast.walk(t):
        if isinstance(n,ast.Subscript):
            b=n.value; s=sort_of(n.slice)
            bn = b.id if isinstance(b,ast.Name) else (b.attr if isinstance(b,ast.Attribute) else None)
            if bn in POS_CONT and s=='L': print(f,n.lineno,'label indexes positional',ast.unparse(n))
            if (bn in LAB_CONT or bn in LAB_CONT_ATTR) and s=='P': print(f,n.lineno,'position indexes label-keyed',ast.unparse(n))
            if bn=='index_to_key' and s=='L': print(f,n.lineno,'label into index_to_key',ast.unparse(n))
        if isinstance(n,ast.Compare) and len(n.ops)==1 and isinstance(n.ops[0],(ast.Eq,ast.NotEq)):
            a,b=sort_of(n.left),sort_of(n.comparators[0])
            if {a,b}=={'L','P'}: print(f,n.lineno,'label compared with position',ast.unparse(n))
        if isinstance(n,ast.Call) and ast.unparse(n.func).endswith('sum_of_utilities'):
            for k in n.keywords:
                if k.arg=='consumptions': print(f,n.lineno,'consumptions <-',ast.unparse(k.value))
