import ast, os, re, sys
root='/repo/src/biogeme'
def snake(n):
    s=re.sub(r'(?<=[a-z0-9])([A-Z])', r'_\1', n)
    s=re.sub(r'([A-Z]+)([A-Z][a-z])', r'\1_\2', s)
    return s.lower()
rows=[]
for dp,dn,fn in os.walk(root):
    for f in fn:
        if not f.endswith('.py'): continue
        p=os.path.join(dp,f)
        t=ast.parse(open(p).read())
        for node in ast.walk(t):
            if isinstance(node,(ast.ClassDef,ast.Module)):
                for ch in node.body:
                    if isinstance(ch,ast.FunctionDef):
                        for d in ch.decorator_list:
                            if isinstance(d,ast.Call) and getattr(d.func,'id',None)=='deprecated':
                                arg = d.args[0] if d.args else d.keywords[0].value
                                new = ast.unparse(arg)
                                owner = node.name if isinstance(node,ast.ClassDef) else '<module>'
                                rows.append((os.path.relpath(p,root),owner,ch.name,new,ch))
print(len(rows))
for r in rows:
    old,new=r[2],r[3]
    flag = '' if snake(old)==new.split('.')[-1] else '   <<< name mismatch (snake=%s)'%snake(old)
    print(f'{r[0]:45s} {r[1]:28s} {old:38s} -> {new}{flag}')
