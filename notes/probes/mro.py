import ast,os
root='/repo/src/biogeme'
classes={}
for dp,dn,fn in os.walk(root):
    for f in fn:
        if not f.endswith('.py') or f=='models_orig.py': continue
        p=os.path.join(dp,f); t=ast.parse(open(p).read())
        for n in t.body:
            if isinstance(n,ast.ClassDef):
                meths={}
                for m in n.body:
                    if isinstance(m,ast.FunctionDef):
                        dep=None
                        for d in m.decorator_list:
                            if isinstance(d,ast.Call) and getattr(d.func,'id','')=='deprecated':
                                a=d.args[0] if d.args else d.keywords[0].value
                                dep=ast.unparse(a)
                        meths[m.name]=dep
                classes[n.name]=([ast.unparse(b).split('.')[-1] for b in n.bases],meths)
def mro(c):
    out=[c]
    for b in classes[c][0]:
        if b in classes: out+= [x for x in mro(b) if x not in out]
    return out
viol=[]
for c in classes:
    m=mro(c)
    # aliases visible
    seen=set()
    for k in m:
        for name,dep in classes[k][1].items():
            if dep and name not in seen:
                seen.add(name)
                # resolve name via MRO: first class defining name
                owner=next(x for x in m if name in classes[x][1])
                if owner!=k: continue
                target=dep
                tgt_owner=next((x for x in m if target in classes[x][1]),None)
                if tgt_owner!=owner:
                    viol.append((c,name,owner,target,tgt_owner))
print(len(viol))
from collections import Counter
print(Counter((v[1]) for v in viol))
for v in viol[:12]: print(v)
