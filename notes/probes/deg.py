"""Throw-away probe: homogeneity-degree abstract interpretation of the MEV builders."""
import ast, sys, sympy as sp
MU=sp.Symbol('mu'); MUM=sp.Symbol('mu_m')
class AV:  # abstract value
    def __init__(s,kind,deg=None,why=''): s.kind=kind; s.deg=deg; s.why=why
    def __repr__(s): return f'{s.kind}({sp.simplify(s.deg) if s.deg is not None else ""})'
def C(v=None): return AV('Const',v)          # v: sympy value when known (parameter/number)
def H(d): return AV('Hom',sp.simplify(d))
def L(d): return AV('LogHom',sp.simplify(d))
class TypeErr(Exception): pass
def as_log(a):
    if a.kind=='LogHom': return a
    if a.kind=='Const': return L(0)
    raise TypeErr(f'{a} used additively in log-space')
def as_hom(a):
    if a.kind=='Hom': return a
    if a.kind=='Const': return H(0)
    raise TypeErr(f'{a} used as a function of y')
def join(vals,ctx):
    vals=[v for v in vals if v is not None]
    if not vals: return None
    if all(v.kind=='Const' for v in vals): return C()
    if any(v.kind=='LogHom' for v in vals):
        ds=[as_log(v).deg for v in vals]
        kind=L
    else:
        ds=[as_hom(v).deg for v in vals]; kind=H
    for d in ds[1:]:
        if sp.simplify(d-ds[0])!=0: raise TypeErr(f'{ctx}: degrees differ {ds}')
    return kind(ds[0])
class Interp:
    def __init__(s,fn,mu_is_one):
        s.fn=fn; s.env={}; s.mu_is_one=mu_is_one; s.findings=[]
    def ev(s,n):
        if isinstance(n,ast.Constant): return C(sp.nsimplify(n.value) if isinstance(n.value,(int,float)) else None)
        if isinstance(n,ast.Name):
            if n.id=='mu': return C(MU)
            if n.id in s.env: return s.env[n.id]
            return C()
        if isinstance(n,ast.Attribute):
            if n.attr=='nest_param': return C(MUM)
            return C()
        if isinstance(n,ast.Subscript):
            base=ast.unparse(n.value)
            if base=='util': return L(1)
            if base=='availability': return C()
            v=s.env.get(base)
            return v if v is not None else C()
        if isinstance(n,ast.UnaryOp): 
            v=s.ev(n.operand)
            if v.kind=='Const' and v.deg is not None: return C(-v.deg)
            return v
        if isinstance(n,ast.Compare): return C()
        if isinstance(n,ast.BinOp):
            l,r=s.ev(n.left),s.ev(n.right); op=type(n.op).__name__
            if l.kind=='Const' and r.kind=='Const':
                if l.deg is not None and r.deg is not None:
                    f={'Add':lambda a,b:a+b,'Sub':lambda a,b:a-b,'Mult':lambda a,b:a*b,'Div':lambda a,b:a/b,'Pow':lambda a,b:a**b}[op]
                    return C(f(l.deg,r.deg))
                return C()
            if op in('Add','Sub'):
                if 'LogHom' in (l.kind,r.kind):
                    a,b=as_log(l),as_log(r); return L(a.deg+b.deg if op=='Add' else a.deg-b.deg) if False else L(a.deg+b.deg) if op=='Add' else L(a.deg-b.deg)
                a,b=as_hom(l),as_hom(r)
                if sp.simplify(a.deg-b.deg)!=0: raise TypeErr(f'line {n.lineno}: sum of degrees {a.deg} and {b.deg}')
                return H(a.deg)
            if op=='Mult':
                if l.kind=='Const' and r.kind=='LogHom':
                    if l.deg is None: raise TypeErr(f'line {n.lineno}: unknown constant times log-term')
                    return L(l.deg*r.deg)
                if r.kind=='Const' and l.kind=='LogHom':
                    if r.deg is None: raise TypeErr(f'line {n.lineno}: unknown constant times log-term')
                    return L(l.deg*r.deg)
                a,b=as_hom(l),as_hom(r); return H(a.deg+b.deg)
            if op=='Div':
                if r.kind=='Const' and l.kind=='LogHom' and r.deg is not None: return L(l.deg/r.deg)
                a,b=as_hom(l),as_hom(r); return H(a.deg-b.deg)
            if op=='Pow':
                if r.kind!='Const' or r.deg is None: raise TypeErr(f'line {n.lineno}: non-constant exponent')
                return H(as_hom(l).deg*r.deg)
        if isinstance(n,ast.Call):
            f=ast.unparse(n.func)
            if f=='exp': return H(as_log(s.ev(n.args[0])).deg)
            if f in('log','logzero'):
                a=s.ev(n.args[0])
                if a.kind=='Const': return C()
                return L(as_hom(a).deg)
            if f=='Numeric': return s.ev(n.args[0])
            if f in('bioMultSum','ConditionalSum'):
                arg=n.args[0] if n.args else n.keywords[0].value
                v=s.ev(arg)
                return as_hom(v) if v is not None and v.kind!='Const' else (v or C())
            if f=='ConditionalTermTuple':
                return s.ev([k.value for k in n.keywords if k.arg=='term'][0])
            return C()
        if isinstance(n,(ast.ListComp,)):
            return s.ev(n.elt)
        if isinstance(n,ast.DictComp): return s.ev(n.value)
        if isinstance(n,ast.List):
            return join([s.ev(e) for e in n.elts],f'line {n.lineno}') if n.elts else None
        if isinstance(n,ast.Dict): return None
        return C()
    def run(s,stmts):
        for st in stmts:
            try: s.stmt(st)
            except TypeErr as e: s.findings.append((st.lineno,str(e)))
    def bind(s,name,v,lineno):
        old=s.env.get(name)
        s.env[name]= v if old is None else join([old,v],f'line {lineno}: container {name}')
    def stmt(s,st):
        if isinstance(st,ast.Assign):
            t=st.targets[0]; v=s.ev(st.value)
            if isinstance(t,ast.Name): s.env[t.id]=v
            elif isinstance(t,ast.Subscript): s.bind(ast.unparse(t.value),v,st.lineno)
        elif isinstance(st,ast.AnnAssign) and st.value is not None:
            s.env[ast.unparse(st.target)]=s.ev(st.value)
        elif isinstance(st,ast.AugAssign):
            s.bind(ast.unparse(st.target if not isinstance(st.target,ast.Subscript) else st.target.value), s.ev(st.value), st.lineno)
        elif isinstance(st,ast.Expr) and isinstance(st.value,ast.Call) and isinstance(st.value.func,ast.Attribute) and st.value.func.attr=='append':
            s.bind(ast.unparse(st.value.func.value), s.ev(st.value.args[0]), st.lineno)
        elif isinstance(st,ast.For):
            s.run(st.body)
        elif isinstance(st,ast.If):
            t=ast.unparse(st.test)
            if 'isinstance' in t or t=='not ok': return
            s.run(st.body); s.run(st.orelse)
        elif isinstance(st,ast.Return):
            s.ret=s.ev(st.value) if st.value is not None else None
def analyse(path,names):
    t=ast.parse(open(path).read())
    for f in t.body:
        if isinstance(f,ast.FunctionDef) and f.name in names:
            it=Interp(f, mu_is_one=not f.name.endswith('_mu')); it.ret=None
            it.run(f.body)
            print(f.name,'->',{k:v for k,v in it.env.items() if k in('log_gi','terms_for_nests','gi_terms','the_sum','biosum')},'ret',it.ret,'FINDINGS',it.findings)
analyse(sys.argv[1] if len(sys.argv)>1 else '/repo/src/biogeme/models/nested.py',['get_mev_generating_for_nested','get_mev_for_nested','get_mev_for_nested_mu'])
analyse('/repo/src/biogeme/models/cnl.py',['get_mev_for_cross_nested','get_mev_for_cross_nested_mu'])
