import ast,os
root='/repo/src/biogeme/expressions'
def tmpl(fn):
    # walk statements in order; track accumulator var(s) assigned from JoinedStr
    out=[]
    def fmt(js):
        parts=[]
        if isinstance(js,ast.JoinedStr):
            for v in js.values:
                if isinstance(v,ast.Constant): parts.append(('L',v.value))
                else: parts.append(('E',ast.unparse(v.value)))
        elif isinstance(js,ast.Constant): parts.append(('L',js.value))
        elif isinstance(js,ast.BinOp) and isinstance(js.op,ast.Add):
            parts+=fmt(js.left)+fmt(js.right)
        else: parts.append(('X',ast.unparse(js)))
        return parts
    def walk(stmts,acc):
        for s in stmts:
            if isinstance(s,ast.Assign) and isinstance(s.targets[0],ast.Name) and isinstance(s.value,(ast.JoinedStr,)):
                acc.append(('SET',s.targets[0].id,fmt(s.value)))
            elif isinstance(s,ast.AugAssign) and isinstance(s.target,ast.Name) and isinstance(s.value,(ast.JoinedStr,ast.BinOp,ast.Constant)) and not (isinstance(s.value,ast.BinOp) and not isinstance(s.value.left,(ast.JoinedStr,ast.Constant))):
                acc.append(('ADD',s.target.id,fmt(s.value)))
            elif isinstance(s,ast.AugAssign):
                acc.append(('AUG',ast.unparse(s.target),ast.unparse(s.value)))
            elif isinstance(s,ast.For):
                sub=[]; walk(s.body,sub)
                acc.append(('FOR',ast.unparse(s.target),ast.unparse(s.iter),sub))
            elif isinstance(s,ast.If):
                sub=[]; walk(s.body,sub); acc.append(('IF',ast.unparse(s.test),sub))
            elif isinstance(s,ast.Return):
                acc.append(('RET',ast.unparse(s.value)))
            elif isinstance(s,ast.Assign):
                acc.append(('ASG',ast.unparse(s.targets[0]),ast.unparse(s.value)[:80]))
    acc=[]; walk(fn.body,acc); return acc
for f in sorted(os.listdir(root)):
    if not f.endswith('.py'): continue
    t=ast.parse(open(os.path.join(root,f)).read())
    for c in t.body:
        if isinstance(c,ast.ClassDef):
            for m in c.body:
                if isinstance(m,ast.FunctionDef) and m.name=='get_signature':
                    print('==',c.name)
                    for x in tmpl(m): print('   ',x)
