#!/usr/bin/env python3
"""Entry point of the static checks.

    python3-vt check.py <ID> [--tier quick|thorough] [--replay FILE] [--repo DIR]

exit 0: every obligation of every rule of <ID> is discharged on the current
        tree of /repo (listed known findings are printed as KNOWN-FINDING);
exit 1: VIOLATION lines were printed;
exit 2: ANALYSIS-ERROR - the analysis cannot vouch for this tree.
"""

from __future__ import annotations

import argparse
import importlib
import json
import os
import sys
import time
import traceback

HERE = os.path.dirname(os.path.abspath(__file__))
sys.path.insert(0, HERE)


def main() -> int:
    ap = argparse.ArgumentParser()
    ap.add_argument('prop')
    ap.add_argument('--tier', default=os.environ.get('VERIF_TIER', 'quick') or 'quick')
    ap.add_argument('--replay')
    ap.add_argument('--repo', default=os.environ.get('VERIF_REPO', '/repo'))
    ap.add_argument('--no-evidence', action='store_true')
    args = ap.parse_args()
    tier = 'thorough' if args.tier == 'thorough' else 'quick'
    t0 = time.time()
    from sa.core import AnalysisError, Program
    from sa.report import Ctx, finish

    prop = args.prop.upper()
    try:
        mod = importlib.import_module(f'sa.rules.{prop.lower()}')
    except ModuleNotFoundError:
        print(f'ANALYSIS-ERROR property={prop}: no rule module')
        return 2
    try:
        prog = Program.from_repo(args.repo)
        ctx = Ctx(prog, prop, tier)
        mod.run(ctx)
        extra = {}
        if tier == 'thorough':
            from sa.selftest import run_selftest

            extra = run_selftest(prog, prop, mod)
        if args.replay:
            with open(args.replay, encoding='utf-8') as f:
                want = json.load(f)['key']
            hit = [o for o in ctx.obligations if o.key == want and not o.ok]
            same = [o for o in ctx.obligations if o.rule == want.split('|')[0] and o.construct == want.split('|')[1]]
            if hit:
                o = hit[0]
                print(f'{o.file}:{o.line}: [{o.rule}] {o.construct}: {o.message}')
                print(f'VIOLATION property={prop} replay={args.replay}')
                return 1
            print(f'replay: obligation {want!r} does not fail on this tree ({len(same)} obligation(s) of that construct examined)')
            return 0
        return finish(ctx, t0, extra, write_evidence=not args.no_evidence)
    except AnalysisError as e:
        print(f'ANALYSIS-ERROR property={prop}: {e}')
        return 2
    except BrokenPipeError:
        return 2
    except Exception:  # a bug of the checker must never look like a violation
        traceback.print_exc()
        print(f'ANALYSIS-ERROR property={prop}: internal error of the checker (traceback above)')
        return 2


if __name__ == '__main__':
    sys.exit(main())
